#!/usr/bin/env python3
# Regenerates MANIFEST.json from props/*.json and the tables below.
import json, glob, os, subprocess
ROOT = os.path.dirname(os.path.abspath(__file__))
claimed = {}
for f in sorted(glob.glob(os.path.join(ROOT, 'props', 'C*.json'))):
    p = json.load(open(f))
    claimed[p['id']] = p
NA = json.load(open(os.path.join(ROOT, 'props', 'not_applicable.json')))
hooks_commits = subprocess.run(['git', '-C', '/repo', 'log', '--format=%H %s', 'c829ceb..HEAD'], capture_output=True, text=True).stdout.strip().split('\n')
hook_commits = [l.split()[0] for l in hooks_commits if l and 'verif hooks' in l]
checks = []
for pid, p in claimed.items():
    checks.append({
        'property_id': pid,
        'quick_cmd': f'bin/check {pid} quick',
        'thorough_cmd': f'bin/check {pid} thorough',
        'evidence_file': f'/verif/evidence/{pid}.json',
        'replay_cmd_template': 'cat {path}',
        'engine': 'gvc',
        'level_claimed': {
            'category': 'proof',
            'text': p.get('level_text', p.get('explanation', '')),
            'design_ref': 'DESIGN.md section 0.1 (build-phase status) and section 5, ' + pid,
        },
        'level_note': p.get('level_note', 'trusted: x/tools go/ssa, the gvc VC generator, SMT solvers (unsat verdicts), assumed environment contracts in specs/env.contracts; ' + '; '.join(p.get('assumptions', []))),
        'technique': 'contract-based deductive verification: weakest-precondition style VCs generated from go/ssa of the real functions against contracts in contracts_verif.go, discharged by z3/cvc5',
    })
na = [{'property_id': k, 'reason': v} for k, v in sorted(NA.items()) if k not in claimed]
m = {
    'version': 1,
    'setup_cmd': 'bin/setup',
    'hooks': {
        'guard': 'verif',
        'enable': 'go build tag: -tags verif (contracts_verif.go files are comment-only; the engine loads /repo with this tag)',
        'baseline_off_cmd': json.load(open('/root/.vp/BASELINE.json'))['cmd'],
        'source_commits': hook_commits,
        'add_only': True,
    },
    'engines': [{'name': 'gvc', 'path': 'engine', 'serves_properties': sorted(claimed), 'kind_free_text': 'Go verification-condition generator over go/ssa (NaiveForm) with contracts as structured comments; SMT back ends z3 4.8.12, z3 5.1.0, cvc5 1.0 raced per obligation'}],
    'checks': checks,
    'not_applicable': na,
    'notes': 'Technique family: contract-based deductive verification of the real code. See DESIGN.md.',
}
json.dump(m, open(os.path.join(ROOT, 'MANIFEST.json'), 'w'), indent=1)
print('claimed', sorted(claimed), 'n/a', [x['property_id'] for x in na])
