; C08 lemma layer: completeness of the greedy restore plan.
; Files are abstract ids with attributes lvl, fmin, fmax and eligibility el (the elig() predicate of the
; contracts for the requested TXID/timestamp). Closed(cur) is exactly what CalcRestorePlan's post-conditions
; [C08.complete-snap] and [C08.complete-levels] establish when it returns ErrTxNotAvailable:
;   no eligible snapshot ends after cur, and no eligible file of levels 0..8 that starts at or before cur+1
;   ends after cur.
; A valid chain is a sequence ch(0..n-1) of eligible member files with fmin(ch 0) = 1 and
; fmin(ch i) <= fmax(ch (i-1)) + 1. The induction "every file of a valid chain ends at or before cur" is
; done by hand over i (natural-number induction); base and step are the machine-checked lemmas below; the
; conclusion lemma then says a chain cannot reach a target beyond cur. Each lemma must be unsat.
(declare-fun lvl (Int) Int) (declare-fun fmin (Int) Int) (declare-fun fmax (Int) Int) (declare-fun el (Int) Bool)
(declare-fun ch (Int) Int)
(declare-const n Int) (declare-const cur Int) (declare-const i Int) (declare-const target Int)
(define-fun WF ((f Int)) Bool (and (<= 0 (lvl f)) (<= (lvl f) 9) (<= 1 (fmin f)) (<= (fmin f) (fmax f)) (=> (= (lvl f) 9) (= (fmin f) 1))))
(define-fun ClosedFor ((f Int)) Bool (and (=> (and (= (lvl f) 9) (el f)) (<= (fmax f) cur)) (=> (and (<= (lvl f) 8) (el f) (<= (fmin f) (+ cur 1))) (<= (fmax f) cur))))
; lemma chain-base
(assert (and (<= 0 cur) (>= n 1) (WF (ch 0)) (el (ch 0)) (= (fmin (ch 0)) 1) (ClosedFor (ch 0))))
(assert (not (<= (fmax (ch 0)) cur)))
; lemma chain-step
(assert (and (<= 0 cur) (<= 1 i) (< i n) (WF (ch i)) (el (ch i)) (ClosedFor (ch i))))
(assert (<= (fmax (ch (- i 1))) cur))
(assert (<= (fmin (ch i)) (+ (fmax (ch (- i 1))) 1)))
(assert (not (<= (fmax (ch i)) cur)))
; lemma no-chain-reaches-beyond
(assert (and (>= n 1) (< cur target)))
(assert (forall ((j Int)) (=> (and (<= 0 j) (< j n)) (<= (fmax (ch j)) cur))))
(assert (= (fmax (ch (- n 1))) target))
