; C20 lemma layer: one abstract lock object in a store with conditional writes.
; State: ex (object exists), et (its ETag), exp (ExpiresAt of the stored record), gen (its generation).
; A client c holds (h_c, e_c, x_c): it believes it holds a lease with ETag e_c expiring at x_c.
; Inv(c):  h_c and now <= x_c  ==>  ex and et = e_c     (an unexpired holder's ETag is the stored one)
; The steps are exactly the requests the Go contracts allow: C20.put-if-none-match, C20.put-if-match
; guarded by C20.acquire-expired, C20.renew-etag, C20.release-if-match; a successful write returns a
; fresh ETag (A-C20-s3). Each lemma is the negation of one preservation claim and must be unsat.
(declare-const ex Bool) (declare-const et Int) (declare-const exp Int) (declare-const gen Int)
(declare-const now Int)
(declare-const hA Bool) (declare-const eA Int) (declare-const xA Int)
(declare-const hB Bool) (declare-const eB Int) (declare-const xB Int)
(declare-const ex2 Bool) (declare-const et2 Int) (declare-const exp2 Int) (declare-const gen2 Int)
(declare-const hA2 Bool) (declare-const eA2 Int) (declare-const xA2 Int)
(declare-const fresh Int)
(define-fun InvA () Bool (=> (and hA (<= now xA)) (and ex (= et eA))))
(define-fun InvB () Bool (=> (and hB (<= now xB)) (and ex (= et eB))))
(define-fun InvA2 () Bool (=> (and hA2 (<= now xA2)) (and ex2 (= et2 eA2))))
(define-fun InvB2 () Bool (=> (and hB (<= now xB)) (and ex2 (= et2 eB))))
(define-fun Fresh () Bool (and (not (= fresh et)) (not (= fresh eA)) (not (= fresh eB))))
(define-fun Consistent () Bool (and (=> (and hA ex (= et eA)) (= exp xA)) (=> (and hB ex (= et eB)) (= exp xB))))
(define-fun Distinct () Bool (=> (and hA hB) (not (= eA eB))))
(define-fun Distinct2 () Bool (=> (and hA2 hB) (not (= eA2 eB))))
; lemma mutex
(assert (and InvA InvB Distinct hA hB (<= now xA) (<= now xB)))
; lemma acquire-absent-preserves-inv
(assert (and InvA InvB Fresh Consistent Distinct (not ex)))
(assert (and ex2 (= et2 fresh) (= gen2 1) hA2 (= eA2 fresh) (= xA2 exp2) (< now exp2)))
(assert (not (and InvA2 InvB2 Distinct2)))
; lemma takeover-preserves-inv
(assert (and InvA InvB Fresh Consistent Distinct ex (< exp now)))
(assert (and ex2 (= et2 fresh) (= gen2 (+ gen 1)) hA2 (= eA2 fresh) (= xA2 exp2) (< now exp2)))
(assert (not (and InvA2 InvB2 Distinct2)))
; lemma renew-preserves-inv
(assert (and InvA InvB Fresh Consistent Distinct hA ex (= et eA)))
(assert (and ex2 (= et2 fresh) (= gen2 gen) hA2 (= eA2 fresh) (= xA2 exp2) (< now exp2)))
(assert (not (and InvA2 InvB2 Distinct2)))
; lemma release-preserves-inv
(assert (and InvA InvB Consistent Distinct hA ex (= et eA)))
(assert (and (not ex2) (not hA2)))
(assert (not (and InvA2 InvB2)))
; lemma fenced-after-takeover
(assert (and InvA InvB Fresh Distinct hB ex (= et eB)))
(assert (and ex2 (= et2 fresh)))
(assert (and ex2 (= et2 eB)))
; lemma failed-cas-changes-nothing
(assert (and InvA InvB (= ex2 ex) (= et2 et) (= hA2 hA) (= eA2 eA) (= xA2 xA)))
(assert (not (and InvA2 InvB2)))
; lemma generation-increases-on-takeover
(assert (and ex (= gen2 (+ gen 1)) (not (> gen2 gen))))
; lemma generation-increases-after-release
(assert (and (>= gen 1) (= gen2 1)))
(assert (not (> gen2 gen)))
