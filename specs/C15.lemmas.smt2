; C15 lemma layer: a timestamp restore is monotone in T.
; plan(T) is sound (every element eligible for T: CreatedAt < T, proved as [C08.time]) and closed
; ([C08.complete-*]: no valid chain of T-eligible files ends beyond plan(T).Max; chain lemmas of
; C08.lemmas.smt2). If T1 <= T2 every file eligible for T1 is eligible for T2 (lemma below), so plan(T1) is a
; valid chain of T2-eligible files and therefore ends at or before plan(T2).Max: restoring to a later time
; never yields an earlier state, and no state newer than the last file created before T is returned.
(declare-const created Int) (declare-const t1 Int) (declare-const t2 Int)
; lemma eligibility-monotone-in-T
(assert (and (<= t1 t2) (< created t1)))
(assert (not (< created t2)))
