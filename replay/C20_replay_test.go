package s3

// Replay harness for C20 (injected with `go test -overlay`, never written into /repo).
// An in-memory conditional object store drives the REAL Leaser through every schedule of up to
// 5 requests of two clients and evaluates an independent oracle written from the property:
//   mutex:  two clients never hold unexpired leases at the same time;
//   fence:  a client whose lease is no longer the stored one cannot renew or release it;
//   gen:    (only when the failed obligation is about generations) the generation strictly
//           increases from one successful acquire to the next.
// Every failure is printed as a FAILING-INPUT line.

import (
	"context"
	"fmt"
	"io"
	"net/http"
	"net/http/httptest"
	"os"
	"strings"
	"sync"
	"testing"
	"time"

	"github.com/benbjohnson/litestream"
)

type verifC20Store struct {
	mu      sync.Mutex
	exists  bool
	body    []byte
	etag    string
	counter int
}

func (s *verifC20Store) ServeHTTP(w http.ResponseWriter, r *http.Request) {
	s.mu.Lock()
	defer s.mu.Unlock()
	switch r.Method {
	case http.MethodGet:
		if !s.exists {
			w.WriteHeader(http.StatusNotFound)
			return
		}
		w.Header().Set("ETag", s.etag)
		w.WriteHeader(http.StatusOK)
		_, _ = w.Write(s.body)
	case http.MethodPut:
		if r.Header.Get("If-None-Match") == "*" && s.exists {
			w.WriteHeader(http.StatusPreconditionFailed)
			return
		}
		if m := r.Header.Get("If-Match"); m != "" && (!s.exists || m != s.etag) {
			w.WriteHeader(http.StatusPreconditionFailed)
			return
		}
		body, _ := io.ReadAll(r.Body)
		_ = r.Body.Close()
		s.counter++
		s.exists, s.body, s.etag = true, body, fmt.Sprintf(`"etag-%d"`, s.counter)
		w.Header().Set("ETag", s.etag)
		w.WriteHeader(http.StatusOK)
	case http.MethodDelete:
		if m := r.Header.Get("If-Match"); m != "" && s.exists && m != s.etag {
			w.WriteHeader(http.StatusPreconditionFailed)
			return
		}
		if !s.exists {
			w.WriteHeader(http.StatusNotFound)
			return
		}
		s.exists, s.body, s.etag = false, nil, ""
		w.WriteHeader(http.StatusNoContent)
	}
}

func TestVerifReplayC20(t *testing.T) {
	checkGen := strings.Contains(os.Getenv("VERIF_OBLIGATION"), "eneration")
	ops := []string{"acqA", "acqB", "acqxA", "acqxB", "renA", "renB", "relA", "relB"}
	ctx := context.Background()
	failures := 0
	var run func(seq []string)
	exec := func(seq []string) {
		store := &verifC20Store{}
		server := httptest.NewServer(store)
		defer server.Close()
		cl := map[string]*Leaser{"A": newTestLeaser(t, server.URL), "B": newTestLeaser(t, server.URL)}
		cl["A"].Owner, cl["B"].Owner = "A", "B"
		held := map[string]*litestream.Lease{}
		lastGen := int64(0)
		for i, op := range seq {
			who := op[len(op)-1:]
			l := cl[who]
			switch {
			case strings.HasPrefix(op, "acq"):
				l.TTL = time.Minute
				if strings.HasPrefix(op, "acqx") {
					l.TTL = -time.Second // a lease that is already expired when written
				}
				lease, err := l.AcquireLease(ctx)
				if err == nil && lease != nil {
					if checkGen && lease.Generation <= lastGen {
						fmt.Printf("FAILING-INPUT: schedule=%v step=%d: generation %d after generation %d (must strictly increase)\n", seq, i, lease.Generation, lastGen)
						failures++
					}
					lastGen = lease.Generation
					held[who] = lease
				}
			case strings.HasPrefix(op, "ren"):
				if held[who] == nil {
					continue
				}
				l.TTL = time.Minute
				stale := store.etag != held[who].ETag
				lease, err := l.RenewLease(ctx, held[who])
				if err == nil && lease != nil {
					if stale {
						fmt.Printf("FAILING-INPUT: schedule=%v step=%d: %s renewed a lease that is no longer the stored one\n", seq, i, who)
						failures++
					}
					held[who] = lease
				} else {
					held[who] = nil
				}
			case strings.HasPrefix(op, "rel"):
				if held[who] == nil {
					continue
				}
				stale := store.etag != held[who].ETag
				err := l.ReleaseLease(ctx, held[who])
				if err == nil && stale {
					fmt.Printf("FAILING-INPUT: schedule=%v step=%d: %s released a lease that is no longer the stored one\n", seq, i, who)
					failures++
				}
				held[who] = nil
			}
			if a, b := held["A"], held["B"]; a != nil && b != nil && !a.IsExpired() && !b.IsExpired() {
				fmt.Printf("FAILING-INPUT: schedule=%v step=%d: A and B both hold unexpired leases (A=%+v B=%+v)\n", seq, i, *a, *b)
				failures++
			}
		}
	}
	run = func(seq []string) {
		if failures > 3 {
			return
		}
		if len(seq) > 0 {
			exec(seq)
		}
		if len(seq) == 5 {
			return
		}
		for _, op := range ops {
			run(append(append([]string(nil), seq...), op))
		}
	}
	run(nil)
	if failures > 0 {
		t.Fatalf("%d failing schedules", failures)
	}
}
