package litestream

// Replay harness for C08 (injected with `go test -overlay`, never written into /repo).
// Small replicas (TXIDs 1..5, snapshot level plus levels 0..2, creation times 1..5) are
// enumerated - every set of up to three files, then 150000 pseudo-random sets of up to seven -
// and the REAL CalcRestorePlan is asked for every target TXID, for the latest state and for every
// timestamp. An independent oracle written from the property statement judges each answer:
//   chain:     a returned plan starts at TXID 1, each file begins no later than one past the
//              previous end and extends it, every file is a file of the replica;
//   target:    with a TXID the plan ends exactly there; with a timestamp no file was created at or
//              after it;
//   complete:  if some valid chain of eligible files reaches the target (computed by a fixpoint
//              over all files, not by the planner's greedy walk) the planner must not fail;
//   gap:       asked for the latest state, a successful plan leaves no file beyond its end.
// Levels are listed in file-name order and snapshots start at TXID 1 (the well-formedness the
// contracts assume). Every failure is printed as a FAILING-INPUT line.

import (
	"context"
	"fmt"
	"io"
	"log/slog"
	"os"
	"sort"
	"strings"
	"testing"
	"time"

	"github.com/superfly/ltx"
)

type verifC08Client struct {
	levels map[int][]*ltx.FileInfo
}

func (c *verifC08Client) Type() string                   { return "verif" }
func (c *verifC08Client) Init(ctx context.Context) error { return nil }
func (c *verifC08Client) LTXFiles(ctx context.Context, level int, seek ltx.TXID, useMetadata bool) (ltx.FileIterator, error) {
	var a []*ltx.FileInfo
	for _, f := range c.levels[level] {
		if f.MinTXID >= seek {
			a = append(a, f)
		}
	}
	return ltx.NewFileInfoSliceIterator(a), nil
}
func (c *verifC08Client) OpenLTXFile(ctx context.Context, level int, minTXID, maxTXID ltx.TXID, offset, size int64) (io.ReadCloser, error) {
	return nil, os.ErrNotExist
}
func (c *verifC08Client) WriteLTXFile(ctx context.Context, level int, minTXID, maxTXID ltx.TXID, r io.Reader) (*ltx.FileInfo, error) {
	return nil, fmt.Errorf("read-only")
}
func (c *verifC08Client) DeleteLTXFiles(ctx context.Context, a []*ltx.FileInfo) error { return nil }
func (c *verifC08Client) DeleteAll(ctx context.Context) error                       { return nil }
func (c *verifC08Client) SetLogger(logger *slog.Logger)                             {}

type verifC08File struct {
	level    int
	min, max int
	created  int
}

var verifC08Base = time.Date(2024, 1, 1, 0, 0, 0, 0, time.UTC)

func verifC08Time(i int) time.Time { return verifC08Base.Add(time.Duration(i) * time.Minute) }

func verifC08Build(fs []verifC08File) (*verifC08Client, []*ltx.FileInfo) {
	c := &verifC08Client{levels: map[int][]*ltx.FileInfo{}}
	var all []*ltx.FileInfo
	for _, f := range fs {
		info := &ltx.FileInfo{Level: f.level, MinTXID: ltx.TXID(f.min), MaxTXID: ltx.TXID(f.max), Size: 100, CreatedAt: verifC08Time(f.created)}
		c.levels[f.level] = append(c.levels[f.level], info)
		all = append(all, info)
	}
	for _, a := range c.levels {
		sort.Slice(a, func(i, j int) bool {
			if a[i].MinTXID != a[j].MinTXID {
				return a[i].MinTXID < a[j].MinTXID
			}
			return a[i].MaxTXID < a[j].MaxTXID
		})
	}
	return c, all
}

func verifC08Describe(fs []verifC08File) string {
	var sb strings.Builder
	for i, f := range fs {
		if i > 0 {
			sb.WriteString(" ")
		}
		fmt.Fprintf(&sb, "L%d[%d-%d]@t%d", f.level, f.min, f.max, f.created)
	}
	return sb.String()
}

// reach: the set of TXIDs some valid chain of eligible files ends at (0 = the empty chain).
func verifC08Reach(all []*ltx.FileInfo, txID int, ts time.Time) map[int]bool {
	r := map[int]bool{0: true}
	for changed := true; changed; {
		changed = false
		for _, f := range all {
			if txID != 0 && int(f.MaxTXID) > txID {
				continue
			}
			if !ts.IsZero() && !f.CreatedAt.Before(ts) {
				continue
			}
			if r[int(f.MaxTXID)] {
				continue
			}
			for m := range r {
				if int(f.MinTXID) <= m+1 && int(f.MaxTXID) > m {
					r[int(f.MaxTXID)] = true
					changed = true
					break
				}
			}
		}
	}
	return r
}

func verifC08Check(fs []verifC08File, report func(string)) {
	client, all := verifC08Build(fs)
	logger := slog.New(slog.NewTextHandler(io.Discard, nil))
	member := map[*ltx.FileInfo]bool{}
	for _, f := range all {
		member[f] = true
	}
	type query struct {
		txID int
		ts   time.Time
		name string
	}
	qs := []query{{0, time.Time{}, "latest"}}
	for t := 1; t <= 5; t++ {
		qs = append(qs, query{t, time.Time{}, fmt.Sprintf("txid=%d", t)})
	}
	for t := 1; t <= 6; t++ {
		qs = append(qs, query{0, verifC08Time(t), fmt.Sprintf("timestamp=t%d", t)})
	}
	for _, q := range qs {
		plan, err := CalcRestorePlan(context.Background(), client, ltx.TXID(q.txID), q.ts, logger)
		reach := verifC08Reach(all, q.txID, q.ts)
		maxReach := 0
		for m := range reach {
			if m > maxReach {
				maxReach = m
			}
		}
		bad := func(what string) {
			var ps []string
			for _, p := range plan {
				ps = append(ps, fmt.Sprintf("L%d[%d-%d]", p.Level, p.MinTXID, p.MaxTXID))
			}
			report(fmt.Sprintf("FAILING-INPUT: replica={%s} query=%s -> plan=%v err=%v : %s", verifC08Describe(fs), q.name, ps, err, what))
		}
		if err != nil {
			if q.txID != 0 && reach[q.txID] {
				bad("a valid chain to the requested TXID exists but the planner failed")
			}
			if q.txID == 0 && !q.ts.IsZero() && maxReach > 0 {
				bad("a valid chain of files created before the timestamp exists but the planner failed")
			}
			if q.txID == 0 && q.ts.IsZero() && maxReach > 0 {
				beyond := false
				for _, f := range all {
					if f.Level != SnapshotLevel && int(f.MaxTXID) > maxReach {
						beyond = true
					}
				}
				if !beyond {
					bad("every file is reachable (no gap) but the planner failed")
				}
			}
			continue
		}
		if len(plan) == 0 {
			bad("success with an empty plan")
			continue
		}
		cur := 0
		okChain := true
		for i, p := range plan {
			if !member[p] {
				bad("plan names a file that is not on the replica")
				okChain = false
				break
			}
			if i == 0 && p.MinTXID != 1 {
				bad("plan does not start at TXID 1")
				okChain = false
				break
			}
			if int(p.MinTXID) > cur+1 || int(p.MaxTXID) <= cur {
				bad("plan is not a contiguous, extending chain")
				okChain = false
				break
			}
			if !q.ts.IsZero() && !p.CreatedAt.Before(q.ts) {
				bad("plan uses a file created at or after the requested timestamp")
				okChain = false
				break
			}
			cur = int(p.MaxTXID)
		}
		if !okChain {
			continue
		}
		if q.txID != 0 && cur != q.txID {
			bad("plan does not end exactly at the requested TXID")
		}
		if q.txID == 0 && q.ts.IsZero() {
			for _, f := range all {
				if f.Level != SnapshotLevel && int(f.MaxTXID) > cur {
					bad("latest-state plan stops before files that lie beyond its end (gap not reported)")
					break
				}
			}
		}
	}
}

func TestVerifReplayC08(t *testing.T) {
	if os.Getenv("VERIF_REPLAY") == "" {
		t.Skip("replay harness; run by the verification checks")
	}
	var universe []verifC08File
	for m := 1; m <= 5; m++ {
		universe = append(universe, verifC08File{SnapshotLevel, 1, m, 0})
	}
	for lv := 0; lv <= 2; lv++ {
		for a := 1; a <= 5; a++ {
			for b := a; b <= 5; b++ {
				universe = append(universe, verifC08File{lv, a, b, 0})
			}
		}
	}
	hits := 0
	report := func(s string) {
		hits++
		if hits <= 8 {
			fmt.Println(s)
		}
	}
	n := len(universe)
	states := 0
	// every set of up to three files; a file's creation time is the TXID it ends at
	withTime := func(f verifC08File) verifC08File { f.created = f.max; return f }
	for i := 0; i < n && hits < 8; i++ {
		verifC08Check([]verifC08File{withTime(universe[i])}, report)
		states++
		for j := i + 1; j < n && hits < 8; j++ {
			verifC08Check([]verifC08File{withTime(universe[i]), withTime(universe[j])}, report)
			states++
			for k := j + 1; k < n && hits < 8; k++ {
				verifC08Check([]verifC08File{withTime(universe[i]), withTime(universe[j]), withTime(universe[k])}, report)
				states++
			}
		}
	}
	// pseudo-random larger sets with arbitrary creation times (fixed seed)
	seed := uint64(0x9E3779B97F4A7C15)
	next := func(m int) int {
		seed ^= seed << 13
		seed ^= seed >> 7
		seed ^= seed << 17
		return int(seed % uint64(m))
	}
	for it := 0; it < 150000 && hits < 8; it++ {
		k := 2 + next(6)
		seen := map[int]bool{}
		var fs []verifC08File
		for len(fs) < k {
			i := next(n)
			if seen[i] {
				continue
			}
			seen[i] = true
			f := universe[i]
			f.created = 1 + next(5)
			fs = append(fs, f)
		}
		verifC08Check(fs, report)
		states++
	}
	fmt.Printf("C08 replay: %d replicas, 12 queries each, %d failing\n", states, hits)
	if hits > 0 {
		t.Fatalf("%d failing inputs", hits)
	}
}
