package main

import (
	"fmt"
	"go/types"
)

// appendStructs models append on a slice of (flat) structs: the result array
// holds the old prefix and the appended elements; every location that is not an
// element address of the result array is unchanged.
func (fr *Frame) appendStructs(st *State, s, add, res *SliceV, et types.Type, nAdd int64, known bool) {
	vc := fr.x.vc
	sct := structOf(et)
	ea := func(arr, idx T) T { return vc.elemAddr(et, arr, idx) }
	_ = ea(res.Arr, I(0))
	eaName := "elemaddr_" + typeKey(et)
	var keys []string
	for fi := 0; fi < sct.NumFields(); fi++ {
		ft := types.Unalias(sct.Field(fi).Type())
		if structOf(ft) != nil {
			fr.havocType(st, ft)
			vc.warn("append of struct elements with nested struct field %s: nested contents abstracted", sct.Field(fi).Name())
			continue
		}
		keys = append(keys, fieldKeysOf(et, fi)...)
	}
	for _, k := range keys {
		srt, ok := vc.eng.globSorts[k]
		if v, has := st.glob[k]; has {
			srt, ok = v.Sort, true
		}
		if !ok {
			// sort by field type
			srt = SArrII
			for fi := 0; fi < sct.NumFields(); fi++ {
				if fieldKey(et, fi) == k {
					if ls, ok2 := leafSort(sct.Field(fi).Type()); ok2 {
						srt = arrOf(ls)
					}
				}
			}
		}
		vc.eng.noteGlobSort(k, srt)
		h := vc.getGlob(st, k, srt)
		nh := vc.fresh(k, srt)
		vc.assert(T{fmt.Sprintf("(forall ((r Int)) (! (=> (not (= r (%s %s (%s_idx r)))) (= (select %s r) (select %s r))) :pattern ((select %s r))))",
			eaName, res.Arr.S, eaName, nh.S, h.S, nh.S), SBool})
		dst := func(q string) string {
			if res.Off.S == "0" {
				return fmt.Sprintf("(%s %s %s)", eaName, res.Arr.S, q)
			}
			return fmt.Sprintf("(%s %s (+ %s %s))", eaName, res.Arr.S, res.Off.S, q)
		}
		src := func(q string) string {
			if s.Off.S == "0" {
				return fmt.Sprintf("(%s %s %s)", eaName, s.Arr.S, q)
			}
			return fmt.Sprintf("(%s %s (+ %s %s))", eaName, s.Arr.S, s.Off.S, q)
		}
		vc.assert(T{fmt.Sprintf("(forall ((q Int)) (! (=> (and (<= 0 q) (< q %s)) (= (select %s %s) (select %s %s))) :pattern ((select %s %s))))",
			s.Len.S, nh.S, dst("q"), h.S, src("q"), nh.S, dst("q")), SBool})
		if !known {
			// unknown number of appended elements: element j of the result (len <= j < len+n) is element j-len of the appended slice
			dstj := fmt.Sprintf("(%s %s j)", eaName, res.Arr.S)
			if res.Off.S != "0" {
				dstj = fmt.Sprintf("(%s %s (+ %s j))", eaName, res.Arr.S, res.Off.S)
			}
			srcj := fmt.Sprintf("(%s %s (+ %s (- j %s)))", eaName, add.Arr.S, add.Off.S, s.Len.S)
			vc.assert(T{fmt.Sprintf("(forall ((j Int)) (! (=> (and (<= %s j) (< j (+ %s %s))) (= (select %s %s) (select %s %s))) :pattern ((select %s %s))))",
				s.Len.S, s.Len.S, add.Len.S, nh.S, dstj, h.S, srcj, nh.S, dstj), SBool})
		}
		if known {
			for i := int64(0); i < nAdd; i++ {
				d := ea(res.Arr, Add(Add(res.Off, s.Len), I(i)))
				sa := ea(add.Arr, Add(add.Off, I(i)))
				vc.assert(Eq(Sel(nh, d), Sel(h, sa)))
			}
		}
		st.setGlob(k, nh)
	}
}
