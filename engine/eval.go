package main

import (
	"fmt"
	"go/types"
	"strings"

	"golang.org/x/tools/go/ssa"
)

type tv struct {
	v Val
	t types.Type // nil for spec-level values
}

type Eval struct {
	vc      *VC
	fr      *Frame
	st      *State
	old     *State
	loopPre *State
	names   map[string]tv
	qv      map[string]tv
	prefer  bool // prefer local cells over names (loop invariants)
	ctx     string
	pkg     *types.Package
}

type evalErr struct{ msg string }

func (e *Eval) fail(format string, a ...any) {
	panic(evalErr{fmt.Sprintf(format, a...)})
}

// evaluator builds an evaluator for the frame's own contract in state st.
func (fr *Frame) evaluator(st *State) *Eval {
	e := &Eval{vc: fr.x.vc, fr: fr, st: st, old: fr.old, names: map[string]tv{}, qv: map[string]tv{}, prefer: true}
	if fr.fn.Pkg != nil {
		e.pkg = fr.fn.Pkg.Pkg
	}
	if fr.ct != nil {
		sig := fr.fn.Signature
		ps := fr.fn.Params
		for i, n := range fr.ct.Params {
			if i < len(ps) && i < len(fr.params) {
				e.names[n] = tv{fr.params[i], ps[i].Type()}
			}
		}
		_ = sig
		e.applyLets(fr.ct)
	}
	return e
}

func (e *Eval) applyLets(ct *Contract) {
	for _, l := range ct.Lets {
		save := e.st
		if e.old != nil {
			e.st = e.old
		}
		e.names[l.Name] = e.eval(l.E)
		e.st = save
	}
}

func (e *Eval) evalBool(x Expr) (res T) {
	defer func() {
		if r := recover(); r != nil {
			if ee, ok := r.(evalErr); ok {
				panic(fmt.Errorf("contract evaluation error in %s: %s", e.vc.fnKey, ee.msg))
			}
			panic(r)
		}
	}()
	r := e.eval(x)
	t, ok := r.v.(T)
	if !ok || t.Sort != SBool {
		e.fail("expected boolean expression, got %T", r.v)
	}
	return t
}

func (e *Eval) evalInt(x Expr) (res T) {
	defer func() {
		if r := recover(); r != nil {
			if ee, ok := r.(evalErr); ok {
				panic(fmt.Errorf("contract evaluation error in %s: %s", e.vc.fnKey, ee.msg))
			}
			panic(r)
		}
	}()
	r := e.eval(x)
	t, ok := r.v.(T)
	if !ok || t.Sort != SInt {
		e.fail("expected integer expression")
	}
	return t
}

func (e *Eval) leaf(x Expr) T {
	r := e.eval(x)
	t, ok := r.v.(T)
	if !ok {
		e.fail("expected scalar value, got %T", r.v)
	}
	return t
}

func (e *Eval) lookupIdent(name string) (tv, bool) {
	if v, ok := e.qv[name]; ok {
		return v, true
	}
	tryCells := func() (tv, bool) {
		if e.fr == nil {
			return tv{}, false
		}
		// name#k selects the k-th declared cell of that name
		base, ord := name, -1
		if i := strings.Index(name, "#"); i >= 0 {
			fmt.Sscanf(name[i+1:], "%d", &ord)
			base = name[:i]
		}
		var found []*ssa.Alloc
		for _, b := range e.fr.fn.Blocks {
			for _, in := range b.Instrs {
				if a, ok := in.(*ssa.Alloc); ok && a.Comment == base {
					found = append(found, a)
				}
			}
		}
		if len(found) == 0 {
			// captured variable of a closure verified on its own
			for i, fv := range e.fr.fn.FreeVars {
				if fv.Name() == base && i < len(e.fr.binds) {
					if p, ok := e.fr.binds[i].(*PtrV); ok && p.Kind == PCell {
						if v, ok := e.st.cells[p.Cell]; ok {
							return tv{v, p.Cell.Typ}, true
						}
					}
				}
			}
			return tv{}, false
		}
		var pick *ssa.Alloc
		if ord >= 0 && ord < len(found) {
			pick = found[ord]
		} else {
			// prefer the unique live one
			var live []*ssa.Alloc
			for _, a := range found {
				if c, ok := e.fr.cells[a]; ok {
					if _, ok := e.st.cells[c]; ok {
						live = append(live, a)
					}
				} else if _, ok := e.fr.env[a]; ok {
					live = append(live, a)
				}
			}
			if len(live) >= 1 {
				pick = live[0]
			} else {
				return tv{}, false
			}
		}
		et := pick.Type().Underlying().(*types.Pointer).Elem()
		if c, ok := e.fr.cells[pick]; ok {
			v, ok := e.st.cells[c]
			if !ok {
				return tv{}, false
			}
			return tv{v, et}, true
		}
		if sv, ok := e.fr.env[pick].(*SliceV); ok {
			// local array: exposed as a slice view
			return tv{sv, types.NewSlice(sv.Elem)}, true
		}
		if ref, ok := e.fr.env[pick].(T); ok {
			// heap-allocated local struct: value is the struct at ref; expose as pointer for selection
			return tv{ref, types.NewPointer(et)}, true
		}
		return tv{}, false
	}
	if e.prefer {
		if v, ok := tryCells(); ok {
			return v, true
		}
	}
	if v, ok := e.names[name]; ok {
		return v, true
	}
	if !e.prefer {
		if v, ok := tryCells(); ok {
			return v, true
		}
	}
	if s, ok := e.vc.eng.cs.Ghosts[name]; ok {
		return tv{e.vc.getGlob(e.st, name, s), nil}, true
	}
	if name == "$alloc" {
		return tv{e.vc.getGlob(e.st, "$alloc", SInt), nil}, true
	}
	if sf, ok := e.vc.eng.cs.SpecFns[name]; ok && len(sf.Args) == 0 {
		e.vc.declareFun(name, nil, sf.Res)
		return tv{T{name, sf.Res}, nil}, true
	}
	// package-level constants of the function's package
	if e.pkg != nil {
		if obj := e.pkg.Scope().Lookup(name); obj != nil {
			if c, ok := obj.(*types.Const); ok {
				if b, ok := c.Type().Underlying().(*types.Basic); ok {
					if b.Info()&types.IsInteger != 0 {
						return tv{IStr(c.Val().ExactString()), c.Type()}, true
					}
					if b.Info()&types.IsString != 0 {
						s, _ := unquote(c.Val().ExactString())
						return tv{e.vc.strLit(s), c.Type()}, true
					}
				}
			}
		}
	}
	return tv{}, false
}

func (e *Eval) eval(x Expr) tv {
	vc := e.vc
	switch n := x.(type) {
	case *EInt:
		return tv{IStr(n.V), nil}
	case *EBool:
		return tv{B(n.V), nil}
	case *EStr:
		return tv{vc.strLit(n.V), types.Typ[types.String]}
	case *ENil:
		return tv{I(0), nil}
	case *EIdent:
		if v, ok := e.lookupIdent(n.Name); ok {
			return v
		}
		e.fail("unknown identifier %q (%s)", n.Name, e.ctx)
	case *EUn:
		switch n.Op {
		case "!":
			return tv{Not(e.boolOf(n.X)), nil}
		case "-":
			return tv{app(SInt, "-", e.leaf(n.X)), nil}
		}
	case *EDeref:
		r := e.eval(n.X)
		if r.t == nil {
			e.fail("deref of untyped value")
		}
		pt, ok := r.t.Underlying().(*types.Pointer)
		if !ok {
			e.fail("deref of non-pointer")
		}
		return tv{vc.load(e.st, r.v, pt.Elem()), pt.Elem()}
	case *ECond:
		c := e.boolOf(n.C)
		a, b := e.eval(n.A), e.eval(n.B)
		at, ok1 := a.v.(T)
		bt, ok2 := b.v.(T)
		if !ok1 || !ok2 {
			e.fail("conditional over composite values")
		}
		return tv{Ite(c, at, bt), a.t}
	case *EBin:
		return e.evalBin(n)
	case *ESel:
		return e.evalSel(n)
	case *EIdx:
		return e.evalIdx(n)
	case *ECall:
		return e.evalCall(n)
	case *EQuant:
		return e.evalQuant(n)
	case *ESlice:
		e.fail("slice expressions are not supported in contracts")
	}
	e.fail("unsupported expression %T", x)
	return tv{}
}

func (e *Eval) boolOf(x Expr) T {
	r := e.eval(x)
	t, ok := r.v.(T)
	if !ok || t.Sort != SBool {
		e.fail("expected boolean, got %v", r.v)
	}
	return t
}

func (e *Eval) eqVals(a, b tv) T {
	switch x := a.v.(type) {
	case T:
		switch y := b.v.(type) {
		case T:
			if x.Sort != y.Sort {
				e.fail("sort mismatch in ==: %s vs %s", x.S, y.S)
			}
			return Eq(x, y)
		case *SliceV:
			if x.S == "0" {
				return Eq(y.Arr, I(0))
			}
		case *PtrV:
			if x.S == "0" {
				return tFalse
			}
		}
	case *SliceV:
		switch y := b.v.(type) {
		case T:
			if y.S == "0" {
				return Eq(x.Arr, I(0))
			}
		case *SliceV:
			return And(Eq(x.Arr, y.Arr), Eq(x.Off, y.Off), Eq(x.Len, y.Len), Eq(x.Cap, y.Cap))
		}
	case *StructV:
		if y, ok := b.v.(*StructV); ok && len(x.F) == len(y.F) {
			var cs []T
			for i := range x.F {
				cs = append(cs, e.eqVals(tv{x.F[i], nil}, tv{y.F[i], nil}))
			}
			return And(cs...)
		}
	case *PtrV:
		if y, ok := b.v.(T); ok && y.S == "0" {
			return tFalse
		}
	}
	e.fail("cannot compare %T with %T", a.v, b.v)
	return tFalse
}

func (e *Eval) evalBin(n *EBin) tv {
	switch n.Op {
	case "&&":
		return tv{And(e.boolOf(n.X), e.boolOf(n.Y)), nil}
	case "||":
		return tv{Or(e.boolOf(n.X), e.boolOf(n.Y)), nil}
	case "==>":
		return tv{Imp(e.boolOf(n.X), e.boolOf(n.Y)), nil}
	case "<==>":
		return tv{Eq(e.boolOf(n.X), e.boolOf(n.Y)), nil}
	case "==":
		return tv{e.eqVals(e.eval(n.X), e.eval(n.Y)), nil}
	case "!=":
		return tv{Not(e.eqVals(e.eval(n.X), e.eval(n.Y))), nil}
	}
	a, b := e.leaf(n.X), e.leaf(n.Y)
	if a.Sort != SInt || b.Sort != SInt {
		e.fail("arithmetic on non-integers: %s %s %s", a.S, n.Op, b.S)
	}
	switch n.Op {
	case "<":
		return tv{Lt(a, b), nil}
	case "<=":
		return tv{Le(a, b), nil}
	case ">":
		return tv{Lt(b, a), nil}
	case ">=":
		return tv{Le(b, a), nil}
	case "+":
		return tv{Add(a, b), nil}
	case "-":
		return tv{Sub(a, b), nil}
	case "*":
		return tv{Mul(a, b), nil}
	case "/":
		if !isLiteralTerm(b) {
			// same uninterpreted quotient the executor uses for a symbolic divisor
			return tv{app(SInt, "sdiv", a, b), nil}
		}
		return tv{app(SInt, "div", a, b), nil}
	case "%":
		return tv{app(SInt, "mod", a, b), nil}
	}
	e.fail("unknown operator %s", n.Op)
	return tv{}
}

func (e *Eval) evalSel(n *ESel) tv {
	vc := e.vc
	// package-qualified constant?
	if id, ok := n.X.(*EIdent); ok {
		if _, isVar := e.lookupIdent(id.Name); !isVar {
			if p := vc.eng.pkgByName(id.Name); p != nil {
				if obj := p.Scope().Lookup(n.Name); obj != nil {
					if c, ok := obj.(*types.Const); ok {
						if b, ok := c.Type().Underlying().(*types.Basic); ok && b.Info()&types.IsInteger != 0 {
							return tv{IStr(c.Val().ExactString()), c.Type()}
						}
						if b, ok := c.Type().Underlying().(*types.Basic); ok && b.Info()&types.IsString != 0 {
							s, _ := unquote(c.Val().ExactString())
							return tv{vc.strLit(s), c.Type()}
						}
					}
					if v, ok := obj.(*types.Var); ok {
						key := "G_" + sanitize(p.Name()+"_"+n.Name)
						// sentinel errors: the same distinct non-nil constants the executor uses
						if (strings.HasPrefix(n.Name, "Err") || strings.HasPrefix(n.Name, "err") || n.Name == "EOF" || n.Name == "Canceled" || n.Name == "DeadlineExceeded") && !vc.decl[key+"$sentinel"] && types.IsInterface(v.Type()) && v.Type().String() == "error" {
							vc.decl[key+"$sentinel"] = true
							g0 := vc.initGlob(key, SInt)
							vc.sigs = append(vc.sigs, fmt.Sprintf("(assert (= %s %d))", g0.S, 900000+vc.eng.addrKind(key)))
							vc.assume("sentinel error variables (Err*) are non-nil, pairwise distinct and never reassigned before function entry")
						}
						if s, ok := leafSort(v.Type()); ok {
							return tv{vc.getGlob(e.st, key, s), v.Type()}
						}
					}
				}
				e.fail("unknown package member %s.%s", id.Name, n.Name)
			}
		}
	}
	x := e.eval(n.X)
	if x.t == nil {
		e.fail("field selection .%s on untyped value", n.Name)
	}
	t := types.Unalias(x.t)
	obj, index, _ := types.LookupFieldOrMethod(t, true, nil, n.Name)
	if obj == nil && e.pkg != nil {
		obj, index, _ = types.LookupFieldOrMethod(t, true, e.pkg, n.Name)
	}
	if obj == nil {
		// try every known package for unexported fields
		for _, p := range vc.eng.allPkgs() {
			obj, index, _ = types.LookupFieldOrMethod(t, true, p, n.Name)
			if obj != nil {
				break
			}
		}
	}
	fv, ok := obj.(*types.Var)
	if !ok || !fv.IsField() {
		e.fail("no field %s in %s", n.Name, t)
	}
	cur := x
	for _, fi := range index {
		ct := types.Unalias(cur.t)
		if pt, ok := ct.Underlying().(*types.Pointer); ok {
			ref := vc.asRefStrict(cur.v)
			st := pt.Elem()
			s := structOf(st)
			if s == nil {
				e.fail("field selection on opaque type %s", st)
			}
			ft := s.Field(fi).Type()
			if structOf(ft) != nil {
				cur = tv{vc.subAddr(st, fi, ref), types.NewPointer(ft)}
			} else {
				cur = tv{vc.loadField(e.st, ref, st, fi), ft}
			}
			continue
		}
		sv, ok := cur.v.(*StructV)
		if !ok {
			e.fail("field selection on %T", cur.v)
		}
		s := structOf(ct)
		cur = tv{sv.F[fi], s.Field(fi).Type()}
	}
	// pointer-to-embedded-struct results are auto-loaded only when selected further
	return cur
}

func (vc *VC) asRefStrict(v Val) T {
	if t, ok := v.(T); ok && t.Sort == SInt {
		return t
	}
	panic(evalErr{fmt.Sprintf("expected reference value, got %T", v)})
}

func (e *Eval) evalIdx(n *EIdx) tv {
	vc := e.vc
	x := e.eval(n.X)
	i := e.leaf(n.I)
	switch v := x.v.(type) {
	case *SliceV:
		abs := Add(v.Off, i)
		if v.Off.S == "0" {
			abs = i
		}
		if structOf(v.Elem) != nil {
			return tv{vc.elemAddr(v.Elem, v.Arr, abs), types.NewPointer(v.Elem)}
		}
		return tv{vc.loadElem(e.st, v.Arr, abs, v.Elem), v.Elem}
	case T:
		switch v.Sort {
		case SArrII, SArrIB, SArrIAI, SArrIAB:
			var et types.Type
			if x.t != nil {
				if at, ok := x.t.Underlying().(*types.Array); ok {
					et = at.Elem()
				}
			}
			return tv{Sel(v, i), et}
		case SInt:
			if x.t != nil {
				if mt, ok := x.t.Underlying().(*types.Map); ok {
					_, valK, vs, ok := mapKeys(x.t)
					if !ok {
						e.fail("unsupported map type in contract")
					}
					va := vc.getGlob(e.st, valK, arrOf(arrOf(vs)))
					return tv{Sel(Sel(va, v), i), mt.Elem()}
				}
			}
		}
	}
	e.fail("cannot index %T", x.v)
	return tv{}
}

func (e *Eval) withState(st *State, f func() tv) tv {
	if st == nil {
		e.fail("no such state in this context")
	}
	save := e.st
	savePrefer := e.prefer
	e.st = st
	defer func() { e.st = save; e.prefer = savePrefer }()
	return f()
}

func (e *Eval) evalCall(n *ECall) tv {
	vc := e.vc
	arg := func(i int) tv {
		if i >= len(n.Args) {
			e.fail("%s: missing argument %d", n.Fn, i)
		}
		return e.eval(n.Args[i])
	}
	switch n.Fn {
	case "old":
		if e.old == nil {
			e.fail("old() not available here")
		}
		return e.withState(e.old, func() tv {
			// inside old(), parameter names denote entry values
			e.prefer = false
			return arg(0)
		})
	case "atloop":
		return e.withState(e.loopPre, func() tv { return arg(0) })
	case "len", "cap", "arr", "off":
		a := arg(0)
		switch v := a.v.(type) {
		case *SliceV:
			switch n.Fn {
			case "len":
				return tv{v.Len, types.Typ[types.Int]}
			case "cap":
				return tv{v.Cap, types.Typ[types.Int]}
			case "arr":
				return tv{v.Arr, nil}
			default:
				return tv{v.Off, nil}
			}
		case T:
			if n.Fn == "len" && a.t != nil {
				if _, ok := a.t.Underlying().(*types.Map); ok {
					domK, _, _, _ := mapKeys(a.t)
					vc.cardAxioms()
					dom := vc.getGlob(e.st, domK, SArrIAB)
					return tv{app(SInt, "card", Sel(dom, v)), types.Typ[types.Int]}
				}
				if isStringType(a.t) {
					vc.declareFun("str_len", []Sort{SInt}, SInt)
					return tv{app(SInt, "str_len", v), types.Typ[types.Int]}
				}
			}
		}
		e.fail("%s of unsupported value", n.Fn)
	case "elems":
		// elems(s): the SMT array holding the contents of s's backing array
		a := arg(0)
		sv, ok := a.v.(*SliceV)
		if !ok {
			e.fail("elems of non-slice")
		}
		s, ok := leafSort(sv.Elem)
		if !ok || structOf(sv.Elem) != nil {
			e.fail("elems of composite-element slice")
		}
		key := elemKey(sv.Elem)
		arr := vc.getGlob(e.st, key, arrOf(arrOf(s)))
		return tv{Sel(arr, sv.Arr), nil}
	case "addrof":
		// addrof(s, i): address of element i of a slice of structs
		a := arg(0)
		sv, ok := a.v.(*SliceV)
		if !ok || structOf(sv.Elem) == nil {
			e.fail("addrof expects a slice of structs")
		}
		i := e.leaf(n.Args[1])
		return tv{vc.elemAddr(types.Unalias(sv.Elem), sv.Arr, Add(sv.Off, i)), types.NewPointer(sv.Elem)}
	case "dom", "vals":
		a := arg(0)
		m, ok := a.v.(T)
		if !ok || a.t == nil {
			e.fail("dom/vals of non-map")
		}
		domK, valK, vs, ok := mapKeys(a.t)
		if n.Fn == "dom" {
			return tv{Sel(vc.getGlob(e.st, domK, SArrIAB), m), nil}
		}
		if !ok {
			e.fail("vals of unsupported map")
		}
		return tv{Sel(vc.getGlob(e.st, valK, arrOf(arrOf(vs))), m), nil}
	case "has":
		a := arg(0)
		m, ok := a.v.(T)
		if !ok || a.t == nil {
			e.fail("has of non-map")
		}
		domK, _, _, _ := mapKeys(a.t)
		return tv{Sel(Sel(vc.getGlob(e.st, domK, SArrIAB), m), e.leaf(n.Args[1])), nil}
	case "visited", "vidx", "vcount":
		// ghost state of the k-th range-over-map of the function: visited set, visit order, visit count
		k := e.leaf(n.Args[0])
		if e.fr == nil {
			e.fail("%s outside function", n.Fn)
		}
		key := fmt.Sprintf("$%s%s_%s_d%d", n.Fn, k.S, sanitize(e.fr.fn.Name()), e.fr.depth)
		srt := SArrIB
		if n.Fn == "vidx" {
			srt = SArrII
		} else if n.Fn == "vcount" {
			srt = SInt
		}
		return tv{vc.getGlob(e.st, key, srt), nil}
	case "card":
		vc.cardAxioms()
		return tv{app(SInt, "card", e.leaf(n.Args[0])), nil}
	case "store":
		a, i, v := e.leaf(n.Args[0]), e.leaf(n.Args[1]), e.leaf(n.Args[2])
		return tv{Sto(a, i, v), nil}
	case "fresh":
		// fresh(x): x was allocated after function entry
		if e.old == nil {
			e.fail("fresh() not available here")
		}
		x := e.leaf(n.Args[0])
		al0 := vc.getGlob(e.old, "$alloc", SInt)
		al := vc.getGlob(e.st, "$alloc", SInt)
		return tv{And(Lt(al0, x), Le(x, al)), nil}
	case "allocated":
		x := e.leaf(n.Args[0])
		al := vc.getGlob(e.st, "$alloc", SInt)
		return tv{And(Lt(I(0), x), Le(x, al)), nil}
	case "min", "max":
		a, b := e.leaf(n.Args[0]), e.leaf(n.Args[1])
		if n.Fn == "min" {
			return tv{Ite(Le(a, b), a, b), nil}
		}
		return tv{Ite(Le(a, b), b, a), nil}
	case "u8", "u16", "u32", "u64", "i8", "i16", "i32", "i64":
		// Go integer conversion (exact modular semantics)
		kinds := map[string]types.BasicKind{"u8": types.Uint8, "u16": types.Uint16, "u32": types.Uint32, "u64": types.Uint64,
			"i8": types.Int8, "i16": types.Int16, "i32": types.Int32, "i64": types.Int64}
		t := types.Typ[kinds[n.Fn]]
		return tv{wrap(e.leaf(n.Args[0]), t), t}
	case "isZero":
		return tv{Eq(e.leaf(n.Args[0]), I(0)), nil}
	case "before":
		return tv{Lt(e.leaf(n.Args[0]), e.leaf(n.Args[1])), nil}
	case "after":
		return tv{Lt(e.leaf(n.Args[1]), e.leaf(n.Args[0])), nil}
	case "dyntype":
		vc.declareFun("dyntype", []Sort{SInt}, SInt)
		return tv{app(SInt, "dyntype", e.leaf(n.Args[0])), nil}
	case "typeid":
		// typeid("pkg.Type") / typeid("*pkg.Type")
		s, ok := n.Args[0].(*EStr)
		if !ok {
			e.fail("typeid expects a string literal")
		}
		t := vc.eng.resolveType(s.V)
		if t == nil {
			e.fail("typeid: unknown type %s", s.V)
		}
		return tv{I(int64(vc.eng.typeID(t))), nil}
	case "isNotExist":
		// the predicate os.IsNotExist(err) as modelled by the engine
		vc.declareFun("err_notexist", []Sort{SInt}, SBool)
		a := e.leaf(n.Args[0])
		return tv{And(Not(Eq(a, I(0))), app(SBool, "err_notexist", a)), nil}
	case "hasSuffix":
		vc.declareFun("str_hassuffix", []Sort{SInt, SInt}, SBool)
		if !vc.decl["str_suffix_ax"] {
			vc.decl["str_suffix_ax"] = true
			vc.declareFun("str_concat", []Sort{SInt, SInt}, SInt)
			vc.sigs = append(vc.sigs, "(assert (forall ((a Int) (b Int)) (! (str_hassuffix (str_concat a b) b) :pattern ((str_concat a b)))))")
		}
		return tv{app(SBool, "str_hassuffix", e.leaf(n.Args[0]), e.leaf(n.Args[1])), nil}
	case "boxed":
		// boxed("pkg.emptyStructType"): the interface value holding that empty struct
		s, ok := n.Args[0].(*EStr)
		if !ok {
			e.fail("boxed expects a string literal")
		}
		t := vc.eng.resolveType(s.V)
		if t == nil {
			e.fail("boxed: unknown type %s", s.V)
		}
		return tv{I(int64(500000 + vc.eng.typeID(t))), nil}
	case "str":
		s, ok := n.Args[0].(*EStr)
		if !ok {
			e.fail("str expects a literal")
		}
		return tv{vc.strLit(s.V), types.Typ[types.String]}
	case "concat":
		vc.declareFun("str_concat", []Sort{SInt, SInt}, SInt)
		return tv{app(SInt, "str_concat", e.leaf(n.Args[0]), e.leaf(n.Args[1])), types.Typ[types.String]}
	}
	if p, ok := vc.eng.cs.Preds[n.Fn]; ok {
		if len(n.Args) != len(p.Params) {
			e.fail("pred %s: expected %d args, got %d", n.Fn, len(p.Params), len(n.Args))
		}
		saved := map[string]*tv{}
		var argv []tv
		for i := range p.Params {
			argv = append(argv, arg(i))
		}
		for i, prm := range p.Params {
			if old, ok := e.qv[prm.Name]; ok {
				o := old
				saved[prm.Name] = &o
			} else {
				saved[prm.Name] = nil
			}
			a := argv[i]
			if t := vc.eng.resolveType(prm.Type); t != nil && !isSpecType(prm.Type) {
				a.t = t
			}
			e.qv[prm.Name] = a
		}
		// predicates see only their parameters, ghosts and spec names
		saveNames, saveFr := e.names, e.fr
		e.names, e.fr = map[string]tv{}, nil
		r := e.eval(p.Body)
		e.names, e.fr = saveNames, saveFr
		for k, v := range saved {
			if v == nil {
				delete(e.qv, k)
			} else {
				e.qv[k] = *v
			}
		}
		return r
	}
	if sf, ok := vc.eng.cs.SpecFns[n.Fn]; ok {
		if len(n.Args) != len(sf.Args) {
			e.fail("spec %s: expected %d args, got %d", n.Fn, len(sf.Args), len(n.Args))
		}
		if !vc.eng.definedInPrelude(sf.Name) {
			vc.declareFun(sf.Name, sf.Args, sf.Res)
		}
		var as []T
		for i := range n.Args {
			a := e.leaf(n.Args[i])
			if a.Sort != sf.Args[i] {
				e.fail("spec %s: argument %d has sort %s, want %s", n.Fn, i, a.Sort, sf.Args[i])
			}
			as = append(as, a)
		}
		if len(as) == 0 {
			return tv{T{sf.Name, sf.Res}, nil}
		}
		return tv{app(sf.Res, sf.Name, as...), nil}
	}
	e.fail("unknown function %s in contract", n.Fn)
	return tv{}
}

func isSpecType(s string) bool { return s == "int" || s == "bool" || s == "Int" || s == "Bool" }

func (e *Eval) evalQuant(n *EQuant) tv {
	vc := e.vc
	var binders []string
	saved := map[string]*tv{}
	for _, qv := range n.Vars {
		if old, ok := e.qv[qv.Name]; ok {
			o := old
			saved[qv.Name] = &o
		} else {
			saved[qv.Name] = nil
		}
		vc.nfresh++
		bn := fmt.Sprintf("%s?%d", qv.Name, vc.nfresh)
		srt := SInt
		var gt types.Type
		switch qv.Type {
		case "int", "Int":
		case "bool", "Bool":
			srt = SBool
		default:
			gt = vc.eng.resolveType(qv.Type)
			if gt == nil {
				e.fail("unknown type %s for bound variable", qv.Type)
			}
			if s, ok := leafSort(gt); ok {
				srt = s
			} else {
				e.fail("bound variable of composite type %s", qv.Type)
			}
		}
		binders = append(binders, fmt.Sprintf("(%s %s)", bn, srt))
		e.qv[qv.Name] = tv{T{bn, srt}, gt}
	}
	// Evaluate body; fresh constants introduced while evaluating under a binder
	// would be unsound (they would not depend on the bound variable), so loads
	// are forced to stay inline.
	vc.inQuant++
	body := e.boolOf(n.Body)
	var pats []string
	for _, tr := range n.Trig {
		var ps []string
		for _, p := range tr {
			ps = append(ps, e.leaf(p).S)
		}
		pats = append(pats, ":pattern ("+strings.Join(ps, " ")+")")
	}
	vc.inQuant--
	for k, v := range saved {
		if v == nil {
			delete(e.qv, k)
		} else {
			e.qv[k] = *v
		}
	}
	q := "forall"
	if !n.All {
		q = "exists"
	}
	if len(pats) > 0 {
		return tv{T{fmt.Sprintf("(%s (%s) (! %s %s))", q, strings.Join(binders, " "), body.S, strings.Join(pats, " ")), SBool}, nil}
	}
	return tv{T{fmt.Sprintf("(%s (%s) %s)", q, strings.Join(binders, " "), body.S), SBool}, nil}
}
