package main

import (
	"fmt"
	"go/token"
	"go/types"
	"strings"

	"golang.org/x/tools/go/ssa"
)

// loopVarRep: for an Alloc that reaches a pointer-typed phi together with other Allocs
// (the lowering of Go 1.22 per-iteration loop variables), the first Alloc of that phi.
func (fr *Frame) loopVarRep(a *ssa.Alloc) *ssa.Alloc {
	if fr.lvRep == nil {
		fr.lvRep = map[*ssa.Alloc]*ssa.Alloc{}
		for _, b := range fr.fn.Blocks {
			for _, in := range b.Instrs {
				phi, ok := in.(*ssa.Phi)
				if !ok {
					continue
				}
				if _, isPtr := phi.Type().Underlying().(*types.Pointer); !isPtr {
					continue
				}
				var as []*ssa.Alloc
				all := true
				for _, e := range phi.Edges {
					if al, ok := e.(*ssa.Alloc); ok {
						as = append(as, al)
					} else {
						all = false
					}
				}
				if !all || len(as) < 2 {
					continue
				}
				for _, al := range as[1:] {
					fr.lvRep[al] = as[0]
				}
			}
		}
	}
	return fr.lvRep[a]
}

func allocEscapes(a *ssa.Alloc) bool {
	refs := a.Referrers()
	if refs == nil {
		return true
	}
	for _, r := range *refs {
		switch u := r.(type) {
		case *ssa.FieldAddr, *ssa.IndexAddr, *ssa.DebugRef:
		case *ssa.UnOp:
			if u.Op != token.MUL {
				return true
			}
		case *ssa.Store:
			if u.Val == ssa.Value(a) {
				return true
			}
		case *ssa.MakeClosure:
			// captured by closure: resolved when the closure is inlined
		case *ssa.Slice:
			// slicing a local array
		default:
			return true
		}
	}
	return false
}

// step executes one non-terminator instruction. It returns the (possibly
// strengthened) reach condition.
func (fr *Frame) step(in ssa.Instruction, cond T, st *State) T {
	vc := fr.x.vc
	switch i := in.(type) {
	case *ssa.DebugRef:
		return cond
	case *ssa.Alloc:
		et := i.Type().Underlying().(*types.Pointer).Elem()
		if structOf(et) != nil && allocEscapes(i) {
			// heap object
			al := vc.getGlob(st, "$alloc", SInt)
			ref := vc.fresh("new_"+strings.TrimPrefix(i.Comment, "new "), SInt)
			vc.assert(Eq(ref, Add(al, I(1))))
			st.setGlob("$alloc", ref)
			vc.storeStructAt(st, ref, et, vc.zeroVal(et))
			fr.env[i] = ref
			return cond
		}
		if at, ok := types.Unalias(et).Underlying().(*types.Array); ok {
			// arrays live in a fresh backing store; a *[N]T value is a fixed-length slice view of it
			n := I(at.Len())
			sv := fr.makeSlice(st, n, n, at.Elem(), true)
			if s := structOf(types.Unalias(at.Elem())); s != nil && at.Len() <= 8 {
				for k := int64(0); k < at.Len(); k++ {
					vc.storeStructAt(st, vc.elemAddr(types.Unalias(at.Elem()), sv.Arr, I(k)), types.Unalias(at.Elem()), vc.zeroVal(at.Elem()))
				}
			}
			fr.env[i] = sv
			return cond
		}
		if rep := fr.loopVarRep(i); rep != nil {
			if c, ok := fr.cells[rep]; ok {
				// Go 1.22 per-iteration copy of a 3-clause loop variable (materialised when a
				// closure captures it): it continues the loop variable's cell.
				vc.assume("per-iteration copies of a captured for-loop variable are identified with the loop variable: closures capturing it are assumed not to be called after their iteration ended")
				fr.cells[i] = c
				st.setCell(c, vc.zeroVal(et))
				fr.env[i] = &PtrV{Kind: PCell, Cell: c}
				return cond
			}
		}
		vc.ncell++
		name := i.Comment
		if name == "" {
			name = i.Name()
		}
		c := &Cell{ID: vc.ncell, Name: name, Typ: et}
		fr.cells[i] = c
		st.setCell(c, vc.zeroVal(et))
		fr.env[i] = &PtrV{Kind: PCell, Cell: c}
	case *ssa.Store:
		et := i.Addr.Type().Underlying().(*types.Pointer).Elem()
		vc.store(st, fr.val(i.Addr), et, fr.val(i.Val))
	case *ssa.UnOp:
		fr.env[i] = fr.unop(i, cond, st)
	case *ssa.BinOp:
		fr.env[i] = fr.binop(i, cond)
	case *ssa.FieldAddr:
		fr.env[i] = fr.fieldAddr(i, cond, st)
	case *ssa.Field:
		x := fr.val(i.X)
		if sv, ok := x.(*StructV); ok && i.Field < len(sv.F) {
			fr.env[i] = sv.F[i.Field]
		} else {
			fr.env[i] = vc.freshVal(i.Type(), "field")
		}
	case *ssa.IndexAddr:
		fr.env[i] = fr.indexAddr(i, cond, st)
	case *ssa.Index:
		x := fr.val(i.X)
		idx, _ := fr.val(i.Index).(T)
		if t, ok := x.(T); ok && (t.Sort == SArrII || t.Sort == SArrIB) && idx.S != "" {
			fr.env[i] = Sel(t, idx)
		} else if _, isStr := i.X.Type().Underlying().(*types.Basic); isStr {
			vc.declareFun("str_at", []Sort{SInt, SInt}, SInt)
			xt, _ := x.(T)
			r := vc.fresh("ch", SInt)
			vc.assert(Eq(r, app(SInt, "str_at", xt, idx)))
			vc.typeAssume(r, i.Type())
			fr.env[i] = r
		} else {
			fr.env[i] = vc.freshVal(i.Type(), "index")
		}
	case *ssa.Slice:
		fr.env[i] = fr.sliceOp(i, cond, st)
	case *ssa.MakeSlice:
		ln, _ := fr.val(i.Len).(T)
		cp, _ := fr.val(i.Cap).(T)
		elem := i.Type().Underlying().(*types.Slice).Elem()
		fr.env[i] = fr.makeSlice(st, ln, cp, elem, true)
	case *ssa.MakeMap:
		al := vc.getGlob(st, "$alloc", SInt)
		ref := vc.fresh("newmap", SInt)
		vc.assert(Eq(ref, Add(al, I(1))))
		st.setGlob("$alloc", ref)
		mt := i.Type().Underlying().(*types.Map)
		mk := typeKey(i.Type().Underlying())
		dom := vc.getGlob(st, "MapDom_"+mk, SArrIAB)
		vc.eng.noteGlobSort("MapDom_"+mk, SArrIAB)
		st.setGlob("MapDom_"+mk, Sto(dom, ref, T{"((as const (Array Int Bool)) false)", SArrIB}))
		_ = mt
		fr.env[i] = ref
	case *ssa.MapUpdate:
		fr.mapUpdate(i, st)
	case *ssa.Lookup:
		fr.env[i] = fr.lookup(i, st)
	case *ssa.MakeInterface:
		x := fr.val(i.X)
		if t, ok := x.(T); ok && t.Sort == SInt && isRefLike(i.X.Type()) {
			fr.env[i] = t
			if _, isPtr := types.Unalias(i.X.Type()).Underlying().(*types.Pointer); isPtr {
				// a non-nil pointer boxed in an interface carries its static type as dynamic type
				vc.declareFun("dyntype", []Sort{SInt}, SInt)
				vc.assert(Imp(Not(Eq(t, I(0))), Eq(app(SInt, "dyntype", t), I(int64(vc.eng.typeID(i.X.Type()))))))
			}
		} else if t, ok := x.(T); ok && t.Sort == SInt {
			// box a scalar: injective per type
			fn := "box_" + typeKey(i.X.Type())
			vc.declareFun(fn, []Sort{SInt}, SInt)
			b := app(SInt, fn, t)
			fr.env[i] = b
		} else if s := structOf(i.X.Type()); s != nil && s.NumFields() == 0 {
			// value of an empty struct type boxed in an interface: a constant per type
			fr.env[i] = I(int64(500000 + vc.eng.typeID(i.X.Type())))
		} else {
			r := vc.fresh("iface", SInt)
			vc.assert(Lt(I(0), r))
			fr.env[i] = r
		}
	case *ssa.ChangeInterface:
		fr.env[i] = fr.val(i.X)
	case *ssa.ChangeType:
		fr.env[i] = fr.val(i.X)
	case *ssa.Convert:
		fr.env[i] = fr.convert(i)
	case *ssa.MultiConvert:
		fr.env[i] = vc.freshVal(i.Type(), "mconv")
	case *ssa.TypeAssert:
		fr.env[i] = fr.typeAssert(i, cond)
	case *ssa.Extract:
		tv, ok := fr.val(i.Tuple).(*TupleV)
		if ok && i.Index < len(tv.E) {
			fr.env[i] = tv.E[i.Index]
		} else {
			fr.env[i] = vc.freshVal(i.Type(), "extract")
		}
	case *ssa.Phi:
		var conds []T
		var vals []Val
		for k, e := range i.Edges {
			pred := i.Block().Preds[k]
			ec, ok := fr.lastEdge[i.Block()][pred]
			if !ok {
				continue
			}
			conds = append(conds, ec)
			vals = append(vals, fr.val(e))
		}
		if len(vals) == 0 {
			fr.env[i] = vc.freshVal(i.Type(), "phi")
		} else {
			fr.env[i] = vc.mergeVals(conds, vals, i.Type(), "phi")
		}
	case *ssa.Call:
		res, c2 := fr.call(i, &i.Call, cond, st)
		fr.env[i] = res
		return c2
	case *ssa.Defer:
		var args []Val
		for _, a := range i.Call.Args {
			args = append(args, fr.val(a))
		}
		var fv Val
		if !i.Call.IsInvoke() {
			fv = fr.val(i.Call.Value)
		} else {
			fv = fr.val(i.Call.Value)
		}
		fr.defers = append(fr.defers, deferRec{armed: cond, call: &i.Call, args: args, fnVal: fv, site: i})
	case *ssa.RunDefers:
		fr.curBlock = i.Block()
		return fr.runDefers(cond, st)
	case *ssa.Go:
		vc.assume(fmt.Sprintf("go statement at %s: goroutine body not verified in this context; assumed to touch only what it captures", fr.posOf(i)))
		fr.havocClosureCaptures(&i.Call, st)
	case *ssa.MakeClosure:
		cv := &ClosV{Fn: i.Fn.(*ssa.Function)}
		for _, b := range i.Bindings {
			cv.Binds = append(cv.Binds, fr.val(b))
		}
		fr.env[i] = cv
	case *ssa.Range:
		fr.env[i] = fr.rangeInit(i, st)
	case *ssa.Next:
		fr.env[i] = fr.rangeNext(i, cond, st)
	case *ssa.Select:
		// non-deterministic ready case
		fr.env[i] = vc.freshVal(i.Type(), "select")
		if tv, ok := fr.env[i].(*TupleV); ok && len(tv.E) > 0 {
			if idx, ok := tv.E[0].(T); ok {
				lo := int64(0)
				if !i.Blocking {
					lo = -1
				}
				vc.assert(And(Le(I(lo), idx), Lt(idx, I(int64(len(i.States))))))
			}
		}
		vc.assume("select statements: non-deterministic choice among cases")
	case *ssa.Send:
	case *ssa.MakeChan:
		r := vc.fresh("chan", SInt)
		vc.assert(Lt(I(0), r))
		fr.env[i] = r
	case *ssa.SliceToArrayPointer:
		fr.env[i] = vc.freshVal(i.Type(), "s2a")
	default:
		vc.warn("unsupported instruction %T in %s", in, fr.fn.Name())
		if v, ok := in.(ssa.Value); ok {
			fr.env[v] = vc.freshVal(v.Type(), "unsup")
		}
	}
	return cond
}

func (fr *Frame) makeSlice(st *State, ln, cp T, elem types.Type, zero bool) *SliceV {
	vc := fr.x.vc
	al := vc.getGlob(st, "$alloc", SInt)
	arr := vc.fresh("newarr", SInt)
	vc.assert(Eq(arr, Add(al, I(1))))
	st.setGlob("$alloc", arr)
	if zero {
		et := types.Unalias(elem)
		if s, ok := leafSort(et); ok && structOf(et) == nil && (s == SInt || s == SBool) {
			key := elemKey(et)
			a := vc.getGlob(st, key, arrOf(arrOf(s)))
			vc.eng.noteGlobSort(key, arrOf(arrOf(s)))
			var z T
			switch s {
			case SInt:
				z = T{"((as const (Array Int Int)) 0)", SArrII}
			case SBool:
				z = T{"((as const (Array Int Bool)) false)", SArrIB}
			}
			if z.S != "" {
				st.setGlob(key, Sto(a, arr, z))
			}
		}
	}
	if ln.S == "" {
		ln = I(0)
	}
	if cp.S == "" {
		cp = ln
	}
	return &SliceV{Arr: arr, Off: I(0), Len: ln, Cap: cp, Elem: elem}
}

func (fr *Frame) unop(i *ssa.UnOp, cond T, st *State) Val {
	vc := fr.x.vc
	x := fr.val(i.X)
	switch i.Op {
	case token.MUL:
		return vc.load(st, x, i.Type())
	case token.NOT:
		if t, ok := x.(T); ok && t.Sort == SBool {
			return Not(t)
		}
	case token.SUB:
		if t, ok := x.(T); ok && t.Sort == SInt {
			return wrap(app(SInt, "-", t), i.Type())
		}
	case token.ARROW:
		return vc.freshVal(i.Type(), "recv")
	case token.XOR:
		if t, ok := x.(T); ok && t.Sort == SInt {
			bits, signed, ok := intBits(i.Type())
			if ok && signed {
				return Sub(app(SInt, "-", t), I(1))
			}
			if ok {
				return T{fmt.Sprintf("(- %s %s)", IStr(fmt.Sprint(pow2m1(bits))).S, t.S), SInt}
			}
		}
	}
	return vc.freshVal(i.Type(), "unop")
}

func pow2m1(bits int) string {
	switch bits {
	case 8:
		return "255"
	case 16:
		return "65535"
	case 32:
		return "4294967295"
	}
	return "18446744073709551615"
}

func isStringType(t types.Type) bool {
	b, ok := t.Underlying().(*types.Basic)
	return ok && b.Info()&types.IsString != 0
}

func isFloatType(t types.Type) bool {
	b, ok := t.Underlying().(*types.Basic)
	return ok && b.Info()&(types.IsFloat|types.IsComplex) != 0
}

func (fr *Frame) binop(i *ssa.BinOp, cond T) Val {
	vc := fr.x.vc
	xv, yv := fr.val(i.X), fr.val(i.Y)
	xt := types.Unalias(i.X.Type())
	// comparisons of composite values
	if i.Op == token.EQL || i.Op == token.NEQ {
		e := fr.valEq(xv, yv, xt)
		if i.Op == token.NEQ {
			return Not(e)
		}
		return e
	}
	x, ok1 := xv.(T)
	y, ok2 := yv.(T)
	if !ok1 || !ok2 {
		return vc.freshVal(i.Type(), "binop")
	}
	if isFloatType(xt) {
		return vc.freshVal(i.Type(), "fop")
	}
	if isStringType(xt) {
		switch i.Op {
		case token.ADD:
			vc.declareFun("str_concat", []Sort{SInt, SInt}, SInt)
			return app(SInt, "str_concat", x, y)
		case token.LSS, token.GTR, token.LEQ, token.GEQ:
			vc.declareFun("str_lt", []Sort{SInt, SInt}, SBool)
			switch i.Op {
			case token.LSS:
				return app(SBool, "str_lt", x, y)
			case token.GTR:
				return app(SBool, "str_lt", y, x)
			case token.LEQ:
				return Not(app(SBool, "str_lt", y, x))
			default:
				return Not(app(SBool, "str_lt", x, y))
			}
		}
		return vc.freshVal(i.Type(), "strop")
	}
	if x.Sort == SBool && y.Sort == SBool {
		switch i.Op {
		case token.AND, token.LAND:
			return And(x, y)
		case token.OR, token.LOR:
			return Or(x, y)
		}
	}
	if x.Sort != SInt || y.Sort != SInt {
		return vc.freshVal(i.Type(), "binop")
	}
	rt := i.Type()
	switch i.Op {
	case token.ADD:
		return vc.name("add", wrap(Add(x, y), rt))
	case token.SUB:
		return vc.name("sub", wrap(Sub(x, y), rt))
	case token.MUL:
		return vc.name("mul", wrap(Mul(x, y), rt))
	case token.QUO:
		// Go truncated division; divisor zero panics (path treated as unconstrained)
		vc.eng.needTdiv = true
		if !isLiteralTerm(y) {
			// symbolic divisor: uninterpreted quotient/remainder tied by a = q*b + r (prelude axiom)
			return vc.name("quo", wrap(app(SInt, "sdiv", x, y), rt))
		}
		return vc.name("quo", wrap(app(SInt, "tdiv", x, y), rt))
	case token.REM:
		vc.eng.needTdiv = true
		if !isLiteralTerm(y) {
			return vc.name("rem", app(SInt, "smod", x, y))
		}
		return vc.name("rem", app(SInt, "tmod", x, y))
	case token.LSS:
		return Lt(x, y)
	case token.LEQ:
		return Le(x, y)
	case token.GTR:
		return Lt(y, x)
	case token.GEQ:
		return Le(y, x)
	case token.SHL:
		if c, ok := constInt(i.Y); ok && c >= 0 && c < 64 {
			return vc.name("shl", wrap(app(SInt, "*", x, T{pow2big(int(c)), SInt}), rt))
		}
	case token.SHR:
		if c, ok := constInt(i.Y); ok && c >= 0 && c < 64 {
			// floor division is arithmetic shift for both signs
			return vc.name("shr", app(SInt, "div", x, T{pow2big(int(c)), SInt}))
		}
	case token.AND:
		if c, ok := constInt(i.Y); ok && c >= 0 && isPow2(c+1) {
			if _, signed, _ := intBits(rt); !signed {
				return vc.name("and", app(SInt, "mod", x, T{fmt.Sprint(c + 1), SInt}))
			}
		}
		if c, ok := constInt(i.X); ok && c >= 0 && isPow2(c+1) {
			if _, signed, _ := intBits(rt); !signed {
				return vc.name("and", app(SInt, "mod", y, T{fmt.Sprint(c + 1), SInt}))
			}
		}
	}
	// x | y with no overlapping bits (byte assembly such as uint32(b[0])<<8 | uint32(b[1])) is x + y exactly
	if i.Op == token.OR {
		if tzBits(i.X, 0) >= ubBits(i.Y, 0) || tzBits(i.Y, 0) >= ubBits(i.X, 0) {
			return vc.name("or", Add(x, y))
		}
	}
	// uninterpreted bit operations
	fn := ""
	switch i.Op {
	case token.AND:
		fn = "bv_and"
	case token.OR:
		fn = "bv_or"
	case token.XOR:
		fn = "bv_xor"
	case token.SHL:
		fn = "bv_shl"
	case token.SHR:
		fn = "bv_shr"
	case token.AND_NOT:
		fn = "bv_andnot"
	}
	if fn != "" {
		vc.declareFun(fn, []Sort{SInt, SInt}, SInt)
		r := vc.fresh("bv", SInt)
		vc.assert(Eq(r, app(SInt, fn, x, y)))
		vc.typeAssume(r, rt)
		// sound bounds for non-negative operands (everything else about the bit pattern stays unknown)
		nonneg := And(Le(I(0), x), Le(I(0), y))
		switch i.Op {
		case token.OR:
			vc.assert(Imp(nonneg, And(Le(x, r), Le(y, r), Le(r, Add(x, y)))))
		case token.XOR:
			vc.assert(Imp(nonneg, And(Le(I(0), r), Le(r, Add(x, y)))))
		case token.AND:
			vc.assert(Imp(nonneg, And(Le(I(0), r), Le(r, x), Le(r, y))))
		}
		return r
	}
	return vc.freshVal(i.Type(), "binop")
}

// tzBits: a lower bound on the number of trailing zero bits of v, read off its SSA definition.
func tzBits(v ssa.Value, depth int) int {
	if depth > 8 {
		return 0
	}
	if b, ok := v.(*ssa.BinOp); ok {
		switch b.Op {
		case token.SHL:
			if c, ok := constInt(b.Y); ok && c >= 0 && c < 64 {
				return int(c) + tzBits(b.X, depth+1)
			}
		case token.OR:
			l, r := tzBits(b.X, depth+1), tzBits(b.Y, depth+1)
			if r < l {
				return r
			}
			return l
		}
	}
	return 0
}

// ubBits: an upper bound n such that 0 <= v < 2^n (64 when nothing is known), read off its SSA
// definition: zero-extension of an unsigned value, constant left shifts and ors of such values.
func ubBits(v ssa.Value, depth int) int {
	if depth > 8 {
		return 64
	}
	switch b := v.(type) {
	case *ssa.Convert:
		if bits, signed, ok := intBits(b.X.Type()); ok && !signed {
			if rb, rsigned, ok2 := intBits(b.Type()); ok2 && (rb > bits || (rb == bits && !rsigned)) {
				return bits
			}
		}
	case *ssa.BinOp:
		rb, _, ok := intBits(b.Type())
		if !ok {
			return 64
		}
		switch b.Op {
		case token.SHL:
			if c, ok := constInt(b.Y); ok && c >= 0 && c < 64 {
				if n := ubBits(b.X, depth+1) + int(c); n < rb {
					return n
				}
			}
		case token.OR:
			l, r := ubBits(b.X, depth+1), ubBits(b.Y, depth+1)
			if r > l {
				l = r
			}
			if l < rb {
				return l
			}
		}
	}
	return 64
}

func isPow2(n int64) bool { return n > 0 && n&(n-1) == 0 }

func pow2big(n int) string {
	// 2^n for 0<=n<64 as decimal
	v := uint64(1) << uint(n)
	return fmt.Sprint(v)
}

func constInt(v ssa.Value) (int64, bool) {
	c, ok := v.(*ssa.Const)
	if !ok || c.Value == nil {
		return 0, false
	}
	if b, ok := c.Type().Underlying().(*types.Basic); ok && b.Info()&types.IsInteger != 0 {
		n := c.Int64()
		if c.Value.ExactString() == fmt.Sprint(n) {
			return n, true
		}
	}
	return 0, false
}

// valEq builds equality of two values of static type t.
func (fr *Frame) valEq(a, b Val, t types.Type) T {
	vc := fr.x.vc
	switch x := a.(type) {
	case T:
		if y, ok := b.(T); ok && x.Sort == y.Sort {
			return Eq(x, y)
		}
		// pointer compare: PtrV vs nil
		if _, ok := b.(*PtrV); ok {
			if x.S == "0" {
				return tFalse
			}
		}
	case *PtrV:
		if y, ok := b.(T); ok && y.S == "0" {
			return tFalse
		}
		if y, ok := b.(*PtrV); ok && valEqual(x, y) {
			return tTrue
		}
	case *StructV:
		if y, ok := b.(*StructV); ok && len(x.F) == len(y.F) {
			st := structOf(x.Typ)
			var cs []T
			for i := range x.F {
				var ft types.Type
				if st != nil {
					ft = st.Field(i).Type()
				}
				cs = append(cs, fr.valEq(x.F[i], y.F[i], ft))
			}
			return And(cs...)
		}
	case *SliceV:
		// only comparison with nil is legal
		if y, ok := b.(*SliceV); ok {
			if y.Arr.S == "0" && y.Len.S == "0" {
				return Eq(x.Arr, I(0))
			}
			if x.Arr.S == "0" && x.Len.S == "0" {
				return Eq(y.Arr, I(0))
			}
		}
	case *ClosV:
		if y, ok := b.(T); ok && y.S == "0" {
			return tFalse
		}
	}
	if y, ok := b.(*ClosV); ok {
		_ = y
		if x, ok := a.(T); ok && x.S == "0" {
			return tFalse
		}
	}
	return vc.fresh("eq", SBool)
}

func (fr *Frame) fieldAddr(i *ssa.FieldAddr, cond T, st *State) Val {
	vc := fr.x.vc
	x := fr.val(i.X)
	stTyp := i.X.Type().Underlying().(*types.Pointer).Elem()
	if opaqueStruct(stTyp) {
		return vc.fresh("opqfield", SInt)
	}
	s := structOf(stTyp)
	ft := s.Field(i.Field).Type()
	switch p := x.(type) {
	case *PtrV:
		if p.Kind == PCell || p.Kind == PGlobal {
			n := *p
			n.Path = append(append([]int(nil), p.Path...), i.Field)
			return &n
		}
	case T:
		if structOf(ft) != nil {
			return vc.subAddr(stTyp, i.Field, p)
		}
		return &PtrV{Kind: PField, Base: p, ST: stTyp, FI: i.Field}
	}
	vc.warn("fieldAddr on unsupported base %T in %s", x, fr.fn.Name())
	return vc.fresh("faddr", SInt)
}

func (fr *Frame) indexAddr(i *ssa.IndexAddr, cond T, st *State) Val {
	vc := fr.x.vc
	x := fr.val(i.X)
	idx, ok := fr.val(i.Index).(T)
	if !ok {
		idx = vc.fresh("idx", SInt)
	}
	switch p := x.(type) {
	case *SliceV:
		fr.boundsOblig(i, cond, And(Le(I(0), idx), Lt(idx, p.Len)), "index")
		abs := Add(p.Off, idx)
		if p.Off.S == "0" {
			abs = idx
		}
		if structOf(p.Elem) != nil {
			return vc.elemAddr(p.Elem, p.Arr, abs)
		}
		return &PtrV{Kind: PElem, Base: p.Arr, Idx: &abs, Elem: p.Elem}
	case *PtrV:
		// pointer to an array that is itself one element of a slice/array: index inside it
		if p.Kind == PElem && p.Idx != nil && p.Sub == nil {
			if at, ok := types.Unalias(p.Elem).Underlying().(*types.Array); ok {
				fr.boundsOblig(i, cond, And(Le(I(0), idx), Lt(idx, I(at.Len()))), "index")
				n := *p
				n.Sub = &idx
				return &n
			}
		}
		// pointer to local array
		if p.Kind == PCell && p.Idx == nil {
			if at, ok := i.X.Type().Underlying().(*types.Pointer).Elem().Underlying().(*types.Array); ok {
				fr.boundsOblig(i, cond, And(Le(I(0), idx), Lt(idx, I(at.Len()))), "index")
			}
			n := *p
			n.Idx = &idx
			return &n
		}
	}
	return vc.fresh("iaddr", SInt)
}

func (fr *Frame) boundsOblig(in ssa.Instruction, cond T, ok T, what string) {
	if !fr.top || fr.ct == nil || !fr.ct.CheckBounds {
		return
	}
	vc := fr.x.vc
	fr.callSeq["$bounds"]++
	vc.oblige("bounds", fmt.Sprintf("%d", fr.callSeq["$bounds"]), what+" in range", fr.ct.BoundsTags, fr.posOf(in), cond, ok)
}

func (fr *Frame) sliceOp(i *ssa.Slice, cond T, st *State) Val {
	vc := fr.x.vc
	x := fr.val(i.X)
	get := func(v ssa.Value) (T, bool) {
		if v == nil {
			return T{}, false
		}
		t, ok := fr.val(v).(T)
		return t, ok
	}
	lo, hasLo := get(i.Low)
	hi, hasHi := get(i.High)
	mx, hasMax := get(i.Max)
	switch p := x.(type) {
	case *SliceV:
		if !hasLo {
			lo = I(0)
		}
		if !hasHi {
			hi = p.Len
		}
		cp := p.Cap
		if hasMax {
			cp = mx
		}
		fr.boundsOblig(i, cond, And(Le(I(0), lo), Le(lo, hi), Le(hi, cp), Le(cp, p.Cap)), "slice")
		return &SliceV{Arr: p.Arr, Off: vc.name("off", Add(p.Off, lo)), Len: vc.name("len", Sub(hi, lo)), Cap: vc.name("cap", Sub(cp, lo)), Elem: p.Elem}
	case T:
		if isStringType(i.X.Type()) {
			vc.declareFun("str_sub", []Sort{SInt, SInt, SInt}, SInt)
			vc.declareFun("str_len", []Sort{SInt}, SInt)
			if !hasLo {
				lo = I(0)
			}
			if !hasHi {
				hi = app(SInt, "str_len", p)
			}
			r := vc.fresh("substr", SInt)
			vc.assert(And(Eq(r, app(SInt, "str_sub", p, lo, hi)), Le(I(0), r)))
			return r
		}
	case *PtrV:
		// slicing a local array: materialise as a fresh backing array (contents copied abstractly)
		if p.Kind == PCell {
			if at, ok := i.X.Type().Underlying().(*types.Pointer).Elem().Underlying().(*types.Array); ok {
				n := I(at.Len())
				if !hasLo {
					lo = I(0)
				}
				if !hasHi {
					hi = n
				}
				sv := fr.makeSlice(st, n, n, at.Elem(), false)
				// copy current contents
				if cv, ok := navigate(st.cells[p.Cell], p.Path).(T); ok && (cv.Sort == SArrII || cv.Sort == SArrIB) {
					key := elemKey(at.Elem())
					a := vc.getGlob(st, key, arrOf(cv.Sort))
					vc.eng.noteGlobSort(key, arrOf(cv.Sort))
					st.setGlob(key, Sto(a, sv.Arr, cv))
				}
				vc.warn("slice of local array %s in %s: later writes through the slice are not reflected in the array", p.Cell, fr.fn.Name())
				return &SliceV{Arr: sv.Arr, Off: lo, Len: Sub(hi, lo), Cap: Sub(n, lo), Elem: at.Elem()}
			}
		}
	}
	return vc.freshVal(i.Type(), "slice")
}

func (fr *Frame) convert(i *ssa.Convert) Val {
	vc := fr.x.vc
	x := fr.val(i.X)
	from, to := types.Unalias(i.X.Type()), types.Unalias(i.Type())
	if t, ok := x.(T); ok && t.Sort == SInt {
		_, _, fromInt := intBits(from)
		_, _, toInt := intBits(to)
		if fromInt && toInt {
			return vc.name("conv", wrap(t, to))
		}
		if fromInt && isFloatType(to) || isFloatType(from) && toInt || isFloatType(from) && isFloatType(to) {
			return vc.freshVal(to, "fconv")
		}
		if isStringType(from) && isStringType(to) {
			return t
		}
		if _, isPtr := to.Underlying().(*types.Pointer); isPtr {
			return t
		}
		if b, ok := to.Underlying().(*types.Basic); ok && b.Kind() == types.UnsafePointer {
			return t
		}
	}
	// string <-> []byte
	if isStringType(to) {
		if sv, ok := x.(*SliceV); ok {
			vc.declareFun("str_of_bytes", []Sort{SInt, SInt, SInt, SArrII}, SInt)
			_ = sv
			r := vc.fresh("str", SInt)
			vc.assert(Le(I(0), r))
			return r
		}
	}
	return vc.freshVal(to, "conv")
}

func (fr *Frame) typeAssert(i *ssa.TypeAssert, cond T) Val {
	vc := fr.x.vc
	x, _ := fr.val(i.X).(T)
	vc.declareFun("dyntype", []Sort{SInt}, SInt)
	var payload Val
	at := types.Unalias(i.AssertedType)
	if s, ok := leafSort(at); ok && s == SInt && isRefLike(at) && x.S != "" {
		payload = x
	} else {
		payload = vc.freshVal(at, "ta")
	}
	tid := I(int64(vc.eng.typeID(at)))
	if i.CommaOk {
		ok := vc.fresh("taok", SBool)
		if _, isIface := at.Underlying().(*types.Interface); !isIface && x.S != "" {
			vc.assert(Eq(ok, And(Not(Eq(x, I(0))), Eq(app(SInt, "dyntype", x), tid))))
		} else if x.S != "" {
			vc.assert(Imp(ok, Not(Eq(x, I(0)))))
		}
		return &TupleV{E: []Val{payload, ok}}
	}
	return payload
}

// ---------------------------------------------------------------------------
// Maps

func mapKeys(mt types.Type) (dom, val string, vs Sort, ok bool) {
	m := mt.Underlying().(*types.Map)
	k := typeKey(mt.Underlying())
	ks, kok := leafSort(m.Key())
	s, vok := leafSort(m.Elem())
	if !kok || ks != SInt || !vok || (s != SInt && s != SBool) {
		return "MapDom_" + k, "", 0, false
	}
	return "MapDom_" + k, "MapVal_" + k, s, true
}

func (vc *VC) cardAxioms() {
	if vc.decl["card"] {
		return
	}
	vc.declareFun("card", []Sort{SArrIB}, SInt)
	vc.sigs = append(vc.sigs, "(assert (= (card ((as const (Array Int Bool)) false)) 0))")
	// cardinality facts: non-negative; zero means empty; positive means some member (witness cardw)
	vc.declareFun("cardw", []Sort{SArrIB}, SInt)
	vc.sigs = append(vc.sigs, "(assert (forall ((d (Array Int Bool))) (! (and (>= (card d) 0) (=> (> (card d) 0) (select d (cardw d)))) :pattern ((card d)))))")
	vc.sigs = append(vc.sigs, "(assert (forall ((d (Array Int Bool)) (q Int)) (! (=> (= (card d) 0) (not (select d q))) :pattern ((card d) (select d q)))))")
}

func (fr *Frame) mapUpdate(i *ssa.MapUpdate, st *State) {
	vc := fr.x.vc
	m, _ := fr.val(i.Map).(T)
	k, kok := fr.val(i.Key).(T)
	domK, valK, vs, ok := mapKeys(i.Map.Type())
	dom := vc.getGlob(st, domK, SArrIAB)
	vc.eng.noteGlobSort(domK, SArrIAB)
	if !kok || m.S == "" || k.Sort != SInt {
		// abstract: domain of this map becomes unknown
		if m.S != "" {
			st.setGlob(domK, Sto(dom, m, vc.fresh("dom", SArrIB)))
		}
		return
	}
	vc.cardAxioms()
	d0 := vc.name("d", Sel(dom, m))
	d1 := vc.name("d", Sto(d0, k, tTrue))
	vc.assert(T{fmt.Sprintf("(and (= (card %s) (+ (card %s) (ite (select %s %s) 0 1))) (>= (card %s) 0))", d1.S, d0.S, d0.S, k.S, d0.S), SBool})
	st.setGlob(domK, vc.name(domK, Sto(dom, m, d1)))
	if !ok {
		// composite values (structs): the domain is tracked exactly, the stored values are not
		return
	}
	va := vc.getGlob(st, valK, arrOf(arrOf(vs)))
	vc.eng.noteGlobSort(valK, arrOf(arrOf(vs)))
	v, vok := fr.val(i.Value).(T)
	if !vok || v.Sort != vs {
		v = vc.fresh("mv", vs)
	}
	st.setGlob(valK, vc.name(valK, Sto(va, m, Sto(Sel(va, m), k, v))))
}

func (fr *Frame) lookup(i *ssa.Lookup, st *State) Val {
	vc := fr.x.vc
	if _, isMap := i.X.Type().Underlying().(*types.Map); !isMap {
		// string index
		r := vc.freshVal(i.Type(), "stridx")
		return r
	}
	m, _ := fr.val(i.X).(T)
	k, kok := fr.val(i.Index).(T)
	domK, valK, vs, ok := mapKeys(i.X.Type())
	if !ok || !kok || m.S == "" {
		return vc.freshVal(i.Type(), "lookup")
	}
	dom := vc.getGlob(st, domK, SArrIAB)
	vc.eng.noteGlobSort(domK, SArrIAB)
	va := vc.getGlob(st, valK, arrOf(arrOf(vs)))
	vc.eng.noteGlobSort(valK, arrOf(arrOf(vs)))
	present := Sel(Sel(dom, m), k)
	raw := Sel(Sel(va, m), k)
	var zero T
	if vs == SInt {
		zero = I(0)
	} else {
		zero = tFalse
	}
	v := vc.fresh("mval", vs)
	vc.assert(Eq(v, Ite(present, raw, zero)))
	mt := i.X.Type().Underlying().(*types.Map)
	vc.typeAssume(v, mt.Elem())
	if i.CommaOk {
		return &TupleV{E: []Val{v, vc.name("mok", present)}}
	}
	return v
}

func (fr *Frame) mapDelete(st *State, mt types.Type, m, k T) {
	vc := fr.x.vc
	domK, _, _, _ := mapKeys(mt)
	dom := vc.getGlob(st, domK, SArrIAB)
	vc.eng.noteGlobSort(domK, SArrIAB)
	// the key set is tracked exactly whenever the key is a scalar (also for composite values)
	ok := false
	if ks, kok := leafSort(mt.Underlying().(*types.Map).Key()); kok && ks == SInt && k.Sort == SInt {
		ok = true
	}
	if !ok {
		st.setGlob(domK, Sto(dom, m, vc.fresh("dom", SArrIB)))
		return
	}
	vc.cardAxioms()
	d0 := vc.name("d", Sel(dom, m))
	d1 := vc.name("d", Sto(d0, k, tFalse))
	vc.assert(T{fmt.Sprintf("(and (= (card %s) (- (card %s) (ite (select %s %s) 1 0))) (>= (card %s) 0))", d1.S, d0.S, d0.S, k.S, d1.S), SBool})
	st.setGlob(domK, vc.name(domK, Sto(dom, m, d1)))
}

// Range over map: ghost visited set per Range site.
func (fr *Frame) rangeInit(i *ssa.Range, st *State) Val {
	vc := fr.x.vc
	if _, isMap := i.X.Type().Underlying().(*types.Map); !isMap {
		return vc.fresh("strrange", SInt)
	}
	ord := fr.rangeOrd(i)
	key := fmt.Sprintf("$visited%d_%s_d%d", ord, sanitize(fr.fn.Name()), fr.depth)
	vc.eng.noteGlobSort(key, SArrIB)
	st.setGlob(key, T{"((as const (Array Int Bool)) false)", SArrIB})
	// ghost visit order: vidx[k] is the position at which key k was visited, vcount the number visited
	ik, ck := strings.Replace(key, "$visited", "$vidx", 1), strings.Replace(key, "$visited", "$vcount", 1)
	vc.eng.noteGlobSort(ik, SArrII)
	vc.eng.noteGlobSort(ck, SInt)
	st.setGlob(ik, T{"((as const (Array Int Int)) 0)", SArrII})
	st.setGlob(ck, I(0))
	m, _ := fr.val(i.X).(T)
	return &TupleV{E: []Val{m, vc.strLit(key)}} // iterator value: (map ref, key name id)
}

func (fr *Frame) rangeOrd(r *ssa.Range) int {
	n := 0
	for _, b := range fr.fn.Blocks {
		for _, in := range b.Instrs {
			if rr, ok := in.(*ssa.Range); ok {
				if _, isMap := rr.X.Type().Underlying().(*types.Map); isMap {
					if rr == r {
						return n
					}
					n++
				}
			}
		}
	}
	return n
}

func (fr *Frame) rangeNext(i *ssa.Next, cond T, st *State) Val {
	vc := fr.x.vc
	rng, isRange := i.Iter.(*ssa.Range)
	if i.IsString || !isRange {
		return vc.freshVal(i.Type(), "next")
	}
	if _, isMap := rng.X.Type().Underlying().(*types.Map); !isMap {
		return vc.freshVal(i.Type(), "next")
	}
	ord := fr.rangeOrd(rng)
	key := fmt.Sprintf("$visited%d_%s_d%d", ord, sanitize(fr.fn.Name()), fr.depth)
	m, _ := fr.val(rng.X).(T)
	domK, valK, vs, ok := mapKeys(rng.X.Type())
	mt := rng.X.Type().Underlying().(*types.Map)
	if ks, kok := leafSort(mt.Key()); m.S == "" || !kok || ks != SInt {
		return vc.freshVal(i.Type(), "next")
	}
	dom := vc.getGlob(st, domK, SArrIAB)
	var va T
	if ok {
		va = vc.getGlob(st, valK, arrOf(arrOf(vs)))
	}
	vis := vc.getGlob(st, key, SArrIB)
	okv := vc.fresh("rok", SBool)
	k := vc.fresh("rk", SInt)
	vc.typeAssume(k, mt.Key())
	d := vc.name("d", Sel(dom, m))
	vc.assert(Imp(okv, And(Sel(d, k), Not(Sel(vis, k)))))
	vc.assert(Imp(Not(okv), T{fmt.Sprintf("(forall ((q Int)) (! (=> (select %s q) (select %s q)) :pattern ((select %s q))))", d.S, vis.S, d.S), SBool}))
	st.setGlob(key, vc.name("vis", Ite(okv, Sto(vis, k, tTrue), vis)))
	ik, ck := strings.Replace(key, "$visited", "$vidx", 1), strings.Replace(key, "$visited", "$vcount", 1)
	vidx := vc.getGlob(st, ik, SArrII)
	vcnt := vc.getGlob(st, ck, SInt)
	st.setGlob(ik, vc.name("vidx", Ite(okv, Sto(vidx, k, vcnt), vidx)))
	st.setGlob(ck, vc.name("vcount", Ite(okv, Add(vcnt, I(1)), vcnt)))
	if !ok {
		// composite values (structs): keys are exact, the value is unknown
		return &TupleV{E: []Val{okv, k, vc.freshVal(mt.Elem(), "rv")}}
	}
	v := vc.fresh("rv", vs)
	vc.assert(Eq(v, Sel(Sel(va, m), k)))
	vc.typeAssume(v, mt.Elem())
	return &TupleV{E: []Val{okv, k, v}}
}
