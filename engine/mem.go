package main

import (
	"fmt"
	"go/types"
)

// ---------------------------------------------------------------------------
// Memory model: heap field arrays, element arrays, address functions

func (vc *VC) subAddr(st types.Type, fi int, base T) T {
	fn := subFn(st, fi)
	if !vc.decl[fn] {
		vc.declareFun(fn, []Sort{SInt}, SInt)
		inv := fn + "_inv"
		vc.declareFun(inv, []Sort{SInt}, SInt)
		vc.declareFun("addrkind", []Sort{SInt}, SInt)
		k := vc.eng.addrKind(fn)
		vc.sigs = append(vc.sigs, fmt.Sprintf("(assert (forall ((b Int)) (! (and (= (%s (%s b)) b) (= (addrkind (%s b)) %d) (< (%s b) 0) (= (rootneg (%s b)) (root b))) :pattern ((%s b)))))", inv, fn, fn, k, fn, fn, fn))
	}
	return app(SInt, fn, base)
}

func (vc *VC) elemAddr(elem types.Type, arr, idx T) T {
	fn := "elemaddr_" + typeKey(elem)
	if !vc.decl[fn] {
		vc.declareFun(fn, []Sort{SInt, SInt}, SInt)
		vc.declareFun(fn+"_arr", []Sort{SInt}, SInt)
		vc.declareFun(fn+"_idx", []Sort{SInt}, SInt)
		vc.declareFun("addrkind", []Sort{SInt}, SInt)
		k := vc.eng.addrKind(fn)
		vc.sigs = append(vc.sigs, fmt.Sprintf("(assert (forall ((a Int) (i Int)) (! (and (= (%s_arr (%s a i)) a) (= (%s_idx (%s a i)) i) (= (addrkind (%s a i)) %d) (< (%s a i) 0) (= (rootneg (%s a i)) (root a))) :pattern ((%s a i)))))", fn, fn, fn, fn, fn, k, fn, fn, fn))
	}
	return app(SInt, fn, arr, idx)
}

var sliceParts = []string{"$arr", "$off", "$len", "$cap"}

// loadAt reads a value of type typ stored at "slot": the slot is identified by
// a key (heap array name) and an index term.
func (vc *VC) loadSlot(st *State, key string, idx T, typ types.Type) Val {
	typ = types.Unalias(typ)
	if s, ok := leafSort(typ); ok {
		arr := vc.getGlob(st, key, arrOf(s))
		vc.eng.noteGlobSort(key, arrOf(s))
		v := Sel(arr, idx)
		if s == SInt && vc.inQuant == 0 {
			if _, _, isInt := intRange(typ); isInt || isRefLike(typ) {
				n := vc.fresh("ld", SInt)
				vc.assert(Eq(n, v))
				vc.typeAssume(n, typ)
				if isPtrLike(typ) {
					// well-formed heap: stored references are allocated
					al := vc.getGlob(st, "$alloc", SInt)
					vc.assert(Le(n, al))
				}
				return n
			}
		}
		return v
	}
	switch u := typ.Underlying().(type) {
	case *types.Slice:
		var p [4]T
		for i, part := range sliceParts {
			k := key + part
			arr := vc.getGlob(st, k, SArrII)
			vc.eng.noteGlobSort(k, SArrII)
			p[i] = Sel(arr, idx)
		}
		if vc.inQuant > 0 {
			return &SliceV{Arr: p[0], Off: p[1], Len: p[2], Cap: p[3], Elem: u.Elem()}
		}
		n := vc.fresh("ldlen", SInt)
		vc.assert(Eq(n, p[2]))
		c := vc.fresh("ldcap", SInt)
		vc.assert(Eq(c, p[3]))
		o := vc.fresh("ldoff", SInt)
		vc.assert(Eq(o, p[1]))
		vc.assert(T{fmt.Sprintf("(and (<= 0 %s) (<= %s %s) (<= 0 %s))", n.S, n.S, c.S, o.S), SBool})
		return &SliceV{Arr: p[0], Off: o, Len: n, Cap: c, Elem: u.Elem()}
	case *types.Struct:
		panic("loadSlot: struct slot " + key)
	}
	return vc.freshVal(typ, "ld")
}

func isRefLike(t types.Type) bool {
	switch t.Underlying().(type) {
	case *types.Pointer, *types.Map, *types.Chan, *types.Interface:
		return true
	}
	if b, ok := t.Underlying().(*types.Basic); ok && b.Info()&types.IsString != 0 {
		return true
	}
	return false
}

func isPtrLike(t types.Type) bool {
	switch t.Underlying().(type) {
	case *types.Pointer, *types.Map:
		return true
	}
	return false
}

func (vc *VC) storeSlot(st *State, key string, idx T, typ types.Type, v Val) {
	typ = types.Unalias(typ)
	if s, ok := leafSort(typ); ok {
		t, isT := v.(T)
		if !isT || t.Sort != s {
			t = vc.opaque(v, s)
		}
		arr := vc.getGlob(st, key, arrOf(s))
		vc.eng.noteGlobSort(key, arrOf(s))
		st.setGlob(key, vc.name(key, Sto(arr, idx, t)))
		return
	}
	switch typ.Underlying().(type) {
	case *types.Slice:
		sv, ok := v.(*SliceV)
		if !ok {
			sv = vc.freshVal(typ, "st").(*SliceV)
		}
		parts := []T{sv.Arr, sv.Off, sv.Len, sv.Cap}
		for i, part := range sliceParts {
			k := key + part
			arr := vc.getGlob(st, k, SArrII)
			vc.eng.noteGlobSort(k, SArrII)
			st.setGlob(k, vc.name(k, Sto(arr, idx, parts[i])))
		}
		return
	}
	panic("storeSlot: unsupported type " + typ.String())
}

// opaque converts a non-leaf engine value to an unconstrained leaf (abstraction).
func (vc *VC) opaque(v Val, s Sort) T {
	switch x := v.(type) {
	case T:
		if x.Sort == s {
			return x
		}
	case *ClosV:
		if len(x.Binds) == 0 && s == SInt {
			return vc.declare("fn_"+sanitize(x.Fn.String()), SInt)
		}
	}
	return vc.fresh("opq", s)
}

// loadStructAt loads the struct of type typ at address ref.
func (vc *VC) loadStructAt(st *State, ref T, typ types.Type) Val {
	s := structOf(typ)
	sv := &StructV{Typ: typ}
	for i := 0; i < s.NumFields(); i++ {
		sv.F = append(sv.F, vc.loadField(st, ref, typ, i))
	}
	return sv
}

func (vc *VC) loadField(st *State, ref T, stTyp types.Type, fi int) Val {
	s := structOf(stTyp)
	ft := types.Unalias(s.Field(fi).Type())
	if structOf(ft) != nil {
		return vc.loadStructAt(st, vc.subAddr(stTyp, fi, ref), ft)
	}
	return vc.loadSlot(st, fieldKey(stTyp, fi), ref, ft)
}

func (vc *VC) storeStructAt(st *State, ref T, typ types.Type, v Val) {
	s := structOf(typ)
	sv, ok := v.(*StructV)
	if !ok || len(sv.F) != s.NumFields() {
		sv = vc.freshVal(typ, "ststruct").(*StructV)
	}
	for i := 0; i < s.NumFields(); i++ {
		vc.storeField(st, ref, typ, i, sv.F[i])
	}
}

func (vc *VC) storeField(st *State, ref T, stTyp types.Type, fi int, v Val) {
	s := structOf(stTyp)
	ft := types.Unalias(s.Field(fi).Type())
	if structOf(ft) != nil {
		vc.storeStructAt(st, vc.subAddr(stTyp, fi, ref), ft, v)
		return
	}
	vc.storeSlot(st, fieldKey(stTyp, fi), ref, ft, v)
}

func elemKey(elem types.Type) string { return "Elem_" + typeKey(elem) }

// element access of a slice backing array (abs = absolute index incl. offset)
func (vc *VC) loadElem(st *State, arr, abs T, elem types.Type) Val {
	elem = types.Unalias(elem)
	if s, ok := leafSort(elem); ok && s != SInt && s != SBool && s != SArrII && s != SArrIB && structOf(elem) == nil {
		return vc.freshVal(elem, "el") // deeper nesting: contents abstracted
	}
	if structOf(elem) != nil {
		return vc.loadStructAt(st, vc.elemAddr(elem, arr, abs), elem)
	}
	if s, ok := leafSort(elem); ok {
		key := elemKey(elem)
		a := vc.getGlob(st, key, arrOf(arrOf(s)))
		vc.eng.noteGlobSort(key, arrOf(arrOf(s)))
		v := Sel(Sel(a, arr), abs)
		if s == SInt && vc.inQuant == 0 {
			n := vc.fresh("el", SInt)
			vc.assert(Eq(n, v))
			vc.typeAssume(n, elem)
			if isPtrLike(elem) {
				al := vc.getGlob(st, "$alloc", SInt)
				vc.assert(Le(n, al))
			}
			return n
		}
		return v
	}
	// slice of slices etc.: treat as slot keyed by elemaddr
	return vc.loadSlot(st, elemKey(elem), vc.elemAddr(elem, arr, abs), elem)
}

func (vc *VC) storeElem(st *State, arr, abs T, elem types.Type, v Val) {
	elem = types.Unalias(elem)
	if s, ok := leafSort(elem); ok && s != SInt && s != SBool && s != SArrII && s != SArrIB && structOf(elem) == nil {
		return // deeper nesting: contents abstracted
	}
	if structOf(elem) != nil {
		vc.storeStructAt(st, vc.elemAddr(elem, arr, abs), elem, v)
		return
	}
	if s, ok := leafSort(elem); ok {
		t, isT := v.(T)
		if !isT || t.Sort != s {
			t = vc.opaque(v, s)
		}
		key := elemKey(elem)
		a := vc.getGlob(st, key, arrOf(arrOf(s)))
		vc.eng.noteGlobSort(key, arrOf(arrOf(s)))
		st.setGlob(key, vc.name(key, Sto(a, arr, Sto(Sel(a, arr), abs, t))))
		return
	}
	vc.storeSlot(st, elemKey(elem), vc.elemAddr(elem, arr, abs), elem, v)
}

// ---------------------------------------------------------------------------
// Loads/stores through pointers

func navigate(v Val, path []int) Val {
	for _, i := range path {
		sv, ok := v.(*StructV)
		if !ok || i >= len(sv.F) {
			return nil
		}
		v = sv.F[i]
	}
	return v
}

func update(v Val, path []int, nv Val) Val {
	if len(path) == 0 {
		return nv
	}
	sv, ok := v.(*StructV)
	if !ok {
		return v
	}
	out := &StructV{Typ: sv.Typ, F: append([]Val(nil), sv.F...)}
	out.F[path[0]] = update(sv.F[path[0]], path[1:], nv)
	return out
}

func (vc *VC) load(st *State, p Val, typ types.Type) Val {
	typ = types.Unalias(typ)
	switch x := p.(type) {
	case *PtrV:
		switch x.Kind {
		case PCell:
			cv, ok := st.cells[x.Cell]
			if !ok {
				vc.warn("load from dead cell %s", x.Cell)
				return vc.freshVal(typ, x.Cell.Name)
			}
			v := navigate(cv, x.Path)
			if v == nil {
				return vc.freshVal(typ, x.Cell.Name)
			}
			if x.Idx != nil {
				t, ok := v.(T)
				if ok && (t.Sort == SArrII || t.Sort == SArrIB) {
					e := Sel(t, *x.Idx)
					if t.Sort == SArrII && vc.inQuant == 0 {
						n := vc.fresh("ae", SInt)
						vc.assert(Eq(n, e))
						vc.typeAssume(n, typ)
						return n
					}
					return e
				}
				return vc.freshVal(typ, "arrelem")
			}
			return v
		case PField:
			return vc.loadField(st, x.Base, x.ST, x.FI)
		case PElem:
			if x.Sub != nil {
				// element of a small array stored as one slice/array element
				if av, ok := vc.loadElem(st, x.Base, *x.Idx, x.Elem).(T); ok && (av.Sort == SArrII || av.Sort == SArrIB) {
					e := Sel(av, *x.Sub)
					if av.Sort == SArrII && vc.inQuant == 0 {
						n := vc.fresh("ae", SInt)
						vc.assert(Eq(n, e))
						vc.typeAssume(n, typ)
						return n
					}
					return e
				}
				return vc.freshVal(typ, "subelem")
			}
			return vc.loadElem(st, x.Base, *x.Idx, x.Elem)
		case PGlobal:
			if s, ok := leafSort(typ); ok {
				v := vc.getGlob(st, x.Glob, s)
				return v
			}
			return vc.freshVal(typ, x.Glob)
		}
	case T:
		if structOf(typ) != nil {
			return vc.loadStructAt(st, x, typ)
		}
		return vc.loadSlot(st, "Mem_"+typeKey(typ), x, typ)
	}
	if sv, ok := p.(*SliceV); ok {
		// whole-array load through a *[N]T view
		if at, ok := typ.Underlying().(*types.Array); ok {
			if ls, ok := leafSort(at.Elem()); ok && structOf(at.Elem()) == nil && sv.Off.S == "0" {
				key := elemKey(types.Unalias(at.Elem()))
				a := vc.getGlob(st, key, arrOf(arrOf(ls)))
				vc.eng.noteGlobSort(key, arrOf(arrOf(ls)))
				return Sel(a, sv.Arr)
			}
		}
		return vc.freshVal(typ, "arrval")
	}
	vc.warn("load through unsupported pointer %T", p)
	return vc.freshVal(typ, "ld")
}

func (vc *VC) store(st *State, p Val, typ types.Type, v Val) {
	typ = types.Unalias(typ)
	switch x := p.(type) {
	case *PtrV:
		switch x.Kind {
		case PCell:
			cv, ok := st.cells[x.Cell]
			if !ok {
				cv = vc.zeroVal(x.Cell.Typ)
			}
			if x.Idx != nil {
				leaf := navigate(cv, x.Path)
				t, ok := leaf.(T)
				vt, ok2 := v.(T)
				if ok && ok2 && (t.Sort == SArrII || t.Sort == SArrIB) && vt.Sort == elemOf(t.Sort) {
					st.setCell(x.Cell, update(cv, x.Path, vc.name(x.Cell.Name, Sto(t, *x.Idx, vt))))
				} else {
					st.setCell(x.Cell, update(cv, x.Path, vc.freshVal(typeAt(x.Cell.Typ, x.Path), x.Cell.Name)))
				}
				return
			}
			st.setCell(x.Cell, update(cv, x.Path, v))
			return
		case PField:
			vc.storeField(st, x.Base, x.ST, x.FI, v)
			return
		case PElem:
			if x.Sub != nil {
				av, ok := vc.loadElem(st, x.Base, *x.Idx, x.Elem).(T)
				vt, ok2 := v.(T)
				if ok && ok2 && (av.Sort == SArrII || av.Sort == SArrIB) && vt.Sort == elemOf(av.Sort) {
					vc.storeElem(st, x.Base, *x.Idx, x.Elem, Sto(av, *x.Sub, vt))
				} else {
					vc.storeElem(st, x.Base, *x.Idx, x.Elem, vc.freshVal(x.Elem, "subelem"))
				}
				return
			}
			vc.storeElem(st, x.Base, *x.Idx, x.Elem, v)
			return
		case PGlobal:
			if s, ok := leafSort(typ); ok {
				t, isT := v.(T)
				if !isT || t.Sort != s {
					t = vc.opaque(v, s)
				}
				st.setGlob(x.Glob, t)
			}
			return
		}
	case T:
		if structOf(typ) != nil {
			vc.storeStructAt(st, x, typ, v)
			return
		}
		if _, ok := leafSort(typ); ok {
			vc.storeSlot(st, "Mem_"+typeKey(typ), x, typ, v)
			return
		}
		if _, ok := typ.Underlying().(*types.Slice); ok {
			vc.storeSlot(st, "Mem_"+typeKey(typ), x, typ, v)
			return
		}
	}
	if sv, ok := p.(*SliceV); ok {
		if at, ok := typ.Underlying().(*types.Array); ok {
			if ls, ok := leafSort(at.Elem()); ok && structOf(at.Elem()) == nil && sv.Off.S == "0" {
				key := elemKey(types.Unalias(at.Elem()))
				a := vc.getGlob(st, key, arrOf(arrOf(ls)))
				vc.eng.noteGlobSort(key, arrOf(arrOf(ls)))
				if t, ok := v.(T); ok && t.Sort == arrOf(ls) {
					st.setGlob(key, Sto(a, sv.Arr, t))
					return
				}
				st.setGlob(key, Sto(a, sv.Arr, vc.fresh("arrval", arrOf(ls))))
				return
			}
		}
		fr0 := &Frame{x: &Exec{vc: vc, eng: vc.eng}}
		fr0.havocElems(st, sv)
		return
	}
	vc.warn("store through unsupported pointer %T", p)
}

func typeAt(t types.Type, path []int) types.Type {
	for _, i := range path {
		s := structOf(t)
		if s == nil {
			return t
		}
		t = s.Field(i).Type()
	}
	return t
}

// asRef converts a pointer-ish value to an Int reference term.
func (vc *VC) asRef(v Val) T {
	switch x := v.(type) {
	case T:
		return x
	case *PtrV:
		switch x.Kind {
		case PField:
			vc.declareFun("fieldptr", []Sort{SInt, SInt}, SInt)
			return app(SInt, "fieldptr", x.Base, I(int64(vc.eng.addrKind(fieldKey(x.ST, x.FI)))))
		}
	}
	return vc.fresh("ref", SInt)
}
