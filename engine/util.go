package main

import (
	"bytes"
	"context"
	"os/exec"
	"time"
)

func runCmd(dir string, env []string, timeoutS int, name string, args ...string) (string, int) {
	ctx, cancel := context.WithTimeout(context.Background(), time.Duration(timeoutS)*time.Second)
	defer cancel()
	cmd := exec.CommandContext(ctx, name, args...)
	cmd.Dir = dir
	cmd.Env = env
	var buf bytes.Buffer
	cmd.Stdout = &buf
	cmd.Stderr = &buf
	err := cmd.Run()
	code := 0
	if err != nil {
		code = 1
		if ee, ok := err.(*exec.ExitError); ok {
			code = ee.ExitCode()
		}
	}
	return buf.String(), code
}
