package main

import (
	"fmt"
	"os"
	"regexp"
	"strconv"
	"strings"
	"unicode"
)

// ---------------------------------------------------------------------------
// Contract AST

type Expr interface{}

type (
	EIdent struct{ Name string }
	EInt   struct{ V string }
	EBool  struct{ V bool }
	EStr   struct{ V string }
	ENil   struct{}
	EUn    struct {
		Op string
		X  Expr
	}
	EBin struct {
		Op   string
		X, Y Expr
	}
	ESel struct {
		X    Expr
		Name string
	}
	EIdx struct {
		X, I Expr
	}
	ESlice struct {
		X, Lo, Hi Expr
	}
	ECall struct {
		Fn   string
		Args []Expr
	}
	EQuant struct {
		All   bool
		Vars  []QVar
		Trig  [][]Expr
		Body  Expr
	}
	ECond struct {
		C, A, B Expr
	}
	EDeref struct{ X Expr }
)

type QVar struct {
	Name string
	Type string // "int", "bool", or Go type expression like *ltx.FileInfo
}

type Clause struct {
	E    Expr
	Src  string
	Tags []string
	Line int
}

type LoopContract struct {
	Invariants []*Clause
	Decreases  *Clause
}

type Contract struct {
	Key         string // e.g. litestream.(*restoreLevelCursor).refresh or litestream.CalcRestorePlan
	Params      []string
	Results     []string
	Requires    []*Clause
	Defines     []*Clause
	Ensures     []*Clause
	Modifies    []Expr
	ModSrc      []string
	Loops       map[int]*LoopContract
	Assumed     bool // environment contract (trusted)
	Inline      bool
	CheckBounds bool
	BoundsTags  []string
	Pure        bool
	File        string
	Line        int
	Lets        []LetDef
	Note        string
	CallAsserts map[string][]*Clause // "callee#n" -> asserted clauses before call
	CallSets    map[string][]SetDef  // "callee#n" -> ghost assignments after the call
	Synth       bool                 // synthesised weakest contract (call-site sweep only)
}

type SetDef struct {
	Ghost  string
	E      Expr
	Before bool // "reset": assigned before the call (and before its precondition is checked)
}

type LetDef struct {
	Name string
	E    Expr
}

type PredDef struct {
	Name   string
	Params []QVar
	Body   Expr
	Src    string
}

type GhostDecl struct {
	Name string
	Sort Sort
}

type SpecFn struct {
	Name string
	Args []Sort
	Res  Sort
}

type ContractSet struct {
	Contracts map[string]*Contract
	Preds     map[string]*PredDef
	Ghosts    map[string]Sort
	SpecFns   map[string]*SpecFn
	SMT       []string // raw SMT prelude blocks
	Order     []string
	Global    *Contract // "global" block: call-site clauses applied in every function under contract
}

func newContractSet() *ContractSet {
	return &ContractSet{Contracts: map[string]*Contract{}, Preds: map[string]*PredDef{}, Ghosts: map[string]Sort{}, SpecFns: map[string]*SpecFn{}}
}

// ---------------------------------------------------------------------------
// Lexer

type tok struct {
	kind string // id, int, str, op, eof
	s    string
	line int
}

type lexer struct {
	toks []tok
	p    int
	file string
}

var ops3 = []string{"<==>", "==>", "...", ":=", "::", "==", "!=", "<=", ">=", "&&", "||", "..", "<<", ">>"}

func lex(src, file string, line0 int) (*lexer, error) {
	lx := &lexer{file: file}
	line := line0
	i := 0
	for i < len(src) {
		c := src[i]
		switch {
		case c == '\n':
			line++
			i++
		case c == ' ' || c == '\t' || c == '\r':
			i++
		case c == '/' && i+1 < len(src) && src[i+1] == '/':
			for i < len(src) && src[i] != '\n' {
				i++
			}
		case unicode.IsLetter(rune(c)) || c == '_' || c == '$':
			j := i
			for j < len(src) && (unicode.IsLetter(rune(src[j])) || unicode.IsDigit(rune(src[j])) || src[j] == '_' || src[j] == '$') {
				j++
			}
			// name#k selects the k-th declaration of a shadowed local
			if j+1 < len(src) && src[j] == '#' && unicode.IsDigit(rune(src[j+1])) {
				j++
				for j < len(src) && unicode.IsDigit(rune(src[j])) {
					j++
				}
			}
			lx.toks = append(lx.toks, tok{"id", src[i:j], line})
			i = j
		case unicode.IsDigit(rune(c)):
			j := i
			for j < len(src) && (unicode.IsDigit(rune(src[j])) || src[j] == 'x' || (src[j] >= 'a' && src[j] <= 'f') || (src[j] >= 'A' && src[j] <= 'F') || src[j] == '_') {
				j++
			}
			lx.toks = append(lx.toks, tok{"int", src[i:j], line})
			i = j
		case c == '"':
			j := i + 1
			for j < len(src) && src[j] != '"' {
				if src[j] == '\\' {
					j++
				}
				j++
			}
			if j >= len(src) {
				return nil, fmt.Errorf("%s:%d: unterminated string", file, line)
			}
			s, err := strconv.Unquote(src[i : j+1])
			if err != nil {
				return nil, fmt.Errorf("%s:%d: bad string: %v", file, line, err)
			}
			lx.toks = append(lx.toks, tok{"str", s, line})
			i = j + 1
		default:
			matched := false
			for _, op := range ops3 {
				if strings.HasPrefix(src[i:], op) {
					lx.toks = append(lx.toks, tok{"op", op, line})
					i += len(op)
					matched = true
					break
				}
			}
			if !matched {
				lx.toks = append(lx.toks, tok{"op", string(c), line})
				i++
			}
		}
	}
	lx.toks = append(lx.toks, tok{"eof", "", line})
	return lx, nil
}

func (lx *lexer) peek() tok { return lx.toks[lx.p] }
func (lx *lexer) next() tok {
	t := lx.toks[lx.p]
	if lx.p < len(lx.toks)-1 {
		lx.p++
	}
	return t
}
func (lx *lexer) isOp(s string) bool { t := lx.peek(); return t.kind == "op" && t.s == s }
func (lx *lexer) isID(s string) bool { t := lx.peek(); return t.kind == "id" && t.s == s }
func (lx *lexer) accept(s string) bool {
	if lx.isOp(s) {
		lx.next()
		return true
	}
	return false
}
func (lx *lexer) expect(s string) {
	if !lx.accept(s) {
		t := lx.peek()
		panic(fmt.Errorf("%s:%d: expected %q, found %q", lx.file, t.line, s, t.s))
	}
}

// ---------------------------------------------------------------------------
// Expression parser (precedence climbing)

func (lx *lexer) parseExpr() Expr { return lx.parseIff() }

func (lx *lexer) parseIff() Expr {
	x := lx.parseImp()
	for lx.isOp("<==>") {
		lx.next()
		y := lx.parseImp()
		x = &EBin{"<==>", x, y}
	}
	return x
}

func (lx *lexer) parseImp() Expr {
	x := lx.parseCond()
	if lx.isOp("==>") {
		lx.next()
		y := lx.parseImp() // right assoc
		return &EBin{"==>", x, y}
	}
	return x
}

func (lx *lexer) parseCond() Expr {
	c := lx.parseOr()
	if lx.isOp("?") {
		lx.next()
		a := lx.parseCond()
		lx.expect(":")
		b := lx.parseCond()
		return &ECond{c, a, b}
	}
	return c
}

func (lx *lexer) parseOr() Expr {
	x := lx.parseAnd()
	for lx.isOp("||") {
		lx.next()
		x = &EBin{"||", x, lx.parseAnd()}
	}
	return x
}

func (lx *lexer) parseAnd() Expr {
	x := lx.parseCmp()
	for lx.isOp("&&") {
		lx.next()
		x = &EBin{"&&", x, lx.parseCmp()}
	}
	return x
}

func (lx *lexer) parseCmp() Expr {
	x := lx.parseAdd()
	for {
		t := lx.peek()
		if t.kind == "op" && (t.s == "==" || t.s == "!=" || t.s == "<" || t.s == "<=" || t.s == ">" || t.s == ">=") {
			lx.next()
			y := lx.parseAdd()
			// chained comparison a <= b < c
			nt := lx.peek()
			if nt.kind == "op" && (nt.s == "<" || nt.s == "<=" || nt.s == ">" || nt.s == ">=") && (t.s == "<" || t.s == "<=" || t.s == ">" || t.s == ">=") {
				lx.next()
				z := lx.parseAdd()
				x = &EBin{"&&", &EBin{t.s, x, y}, &EBin{nt.s, y, z}}
				continue
			}
			x = &EBin{t.s, x, y}
			continue
		}
		return x
	}
}

func (lx *lexer) parseAdd() Expr {
	x := lx.parseMul()
	for lx.isOp("+") || lx.isOp("-") {
		op := lx.next().s
		x = &EBin{op, x, lx.parseMul()}
	}
	return x
}

func (lx *lexer) parseMul() Expr {
	x := lx.parseUnary()
	for lx.isOp("*") || lx.isOp("/") || lx.isOp("%") {
		op := lx.next().s
		x = &EBin{op, x, lx.parseUnary()}
	}
	return x
}

func (lx *lexer) parseUnary() Expr {
	if lx.isOp("!") {
		lx.next()
		return &EUn{"!", lx.parseUnary()}
	}
	if lx.isOp("-") {
		lx.next()
		return &EUn{"-", lx.parseUnary()}
	}
	if lx.isOp("*") {
		lx.next()
		return &EDeref{lx.parseUnary()}
	}
	return lx.parsePostfix()
}

func (lx *lexer) parseTypeStr() string {
	// type: [*] ident [. ident] | []type
	var sb strings.Builder
	for lx.isOp("*") || lx.isOp("[") {
		if lx.accept("*") {
			sb.WriteString("*")
		} else {
			lx.next()
			lx.expect("]")
			sb.WriteString("[]")
		}
	}
	t := lx.next()
	if t.kind != "id" {
		panic(fmt.Errorf("%s:%d: expected type, found %q", lx.file, t.line, t.s))
	}
	sb.WriteString(t.s)
	if t.s == "map" && lx.isOp("[") {
		lx.next()
		k := lx.parseTypeStr()
		lx.expect("]")
		v := lx.parseTypeStr()
		return sb.String() + "[" + k + "]" + v
	}
	if lx.isOp(".") {
		lx.next()
		sb.WriteString(".")
		sb.WriteString(lx.next().s)
	}
	return sb.String()
}

func (lx *lexer) parseQuant(all bool) Expr {
	q := &EQuant{All: all}
	for {
		n := lx.next()
		if n.kind != "id" {
			panic(fmt.Errorf("%s:%d: expected bound variable, found %q", lx.file, n.line, n.s))
		}
		typ := lx.parseTypeStr()
		q.Vars = append(q.Vars, QVar{n.s, typ})
		if !lx.accept(",") {
			break
		}
	}
	lx.expect("::")
	for lx.isOp("{") {
		lx.next()
		var pats []Expr
		for {
			pats = append(pats, lx.parseExpr())
			if !lx.accept(",") {
				break
			}
		}
		lx.expect("}")
		q.Trig = append(q.Trig, pats)
	}
	q.Body = lx.parseExpr()
	return q
}

func (lx *lexer) parsePostfix() Expr {
	var x Expr
	t := lx.next()
	switch t.kind {
	case "int":
		s := strings.ReplaceAll(t.s, "_", "")
		if strings.HasPrefix(s, "0x") {
			n, err := strconv.ParseUint(s[2:], 16, 64)
			if err != nil {
				panic(fmt.Errorf("%s:%d: bad int %s", lx.file, t.line, t.s))
			}
			s = strconv.FormatUint(n, 10)
		}
		x = &EInt{s}
	case "str":
		x = &EStr{t.s}
	case "id":
		switch t.s {
		case "true":
			x = &EBool{true}
		case "false":
			x = &EBool{false}
		case "nil":
			x = &ENil{}
		case "forall":
			return lx.parseQuant(true)
		case "exists":
			return lx.parseQuant(false)
		default:
			x = &EIdent{t.s}
		}
	case "op":
		if t.s == "(" {
			x = lx.parseExpr()
			lx.expect(")")
		} else {
			panic(fmt.Errorf("%s:%d: unexpected %q", lx.file, t.line, t.s))
		}
	default:
		panic(fmt.Errorf("%s:%d: unexpected end of expression", lx.file, t.line))
	}
	for {
		switch {
		case lx.isOp("."):
			lx.next()
			n := lx.next()
			x = &ESel{x, n.s}
		case lx.isOp("["):
			lx.next()
			i := lx.parseExpr()
			if lx.accept(":=") {
				v := lx.parseExpr()
				lx.expect("]")
				x = &ECall{"store", []Expr{x, i, v}}
				continue
			}
			if lx.accept("..") {
				hi := lx.parseExpr()
				lx.expect("]")
				x = &ESlice{x, i, hi}
				continue
			}
			lx.expect("]")
			x = &EIdx{x, i}
		case lx.isOp("("):
			id, ok := x.(*EIdent)
			if !ok {
				// qualified spec function pkg.f(...) is not supported
				sel, ok2 := x.(*ESel)
				if ok2 {
					if b, ok3 := sel.X.(*EIdent); ok3 {
						id = &EIdent{b.Name + "." + sel.Name}
						ok = true
					}
				}
				if !ok {
					panic(fmt.Errorf("%s:%d: call of non-identifier", lx.file, lx.peek().line))
				}
			}
			lx.next()
			var args []Expr
			if !lx.isOp(")") {
				for {
					args = append(args, lx.parseExpr())
					if !lx.accept(",") {
						break
					}
				}
			}
			lx.expect(")")
			x = &ECall{id.Name, args}
		default:
			return x
		}
	}
}

// ---------------------------------------------------------------------------
// Contract file parser
//
// A contract file is a sequence of blocks (inside /*@ ... */ comments in Go
// files, or the whole text of a .contracts file):
//
//   func <key>(p1, p2) (r1, r2)
//     [assumed] [inline] [bounds [Cxx.l]] [pure]
//     requires [tag] expr
//     ensures  [tag] expr
//     modifies lval, lval
//     let name = expr
//     loop N invariant [tag] expr
//     loop N decreases expr
//   pred name(x int, f *ltx.FileInfo) = expr
//   ghost name Sort
//   spec name(Sort, ...) Sort
//   smt { raw smt-lib }

var kwClause = map[string]bool{"func": true, "global": true, "defines": true, "assumes": true, "requires": true, "ensures": true, "modifies": true, "loop": true, "pred": true,
	"ghost": true, "spec": true, "smt": true, "assumed": true, "inline": true, "bounds": true, "pure": true, "let": true, "note": true, "at": true}

var reBlock = regexp.MustCompile(`(?s)/\*@(.*?)\*/`)

func (cs *ContractSet) loadFile(path string) error {
	b, err := os.ReadFile(path)
	if err != nil {
		return err
	}
	src := string(b)
	if strings.HasSuffix(path, ".go") {
		ms := reBlock.FindAllStringSubmatchIndex(src, -1)
		for _, m := range ms {
			body := src[m[2]:m[3]]
			line := 1 + strings.Count(src[:m[2]], "\n")
			if err := cs.parse(body, path, line); err != nil {
				return err
			}
		}
		return nil
	}
	return cs.parse(src, path, 1)
}

func parseSort(s string) (Sort, error) {
	s = strings.Join(strings.Fields(s), " ")
	switch s {
	case "Int", "int":
		return SInt, nil
	case "Bool", "bool":
		return SBool, nil
	case "[Int]Int", "(Array Int Int)":
		return SArrII, nil
	case "[Int]Bool", "(Array Int Bool)":
		return SArrIB, nil
	case "[Int][Int]Int", "(Array Int (Array Int Int))":
		return SArrIAI, nil
	case "[Int][Int]Bool", "(Array Int (Array Int Bool))":
		return SArrIAB, nil
	}
	return 0, fmt.Errorf("unknown sort %q", s)
}

func (cs *ContractSet) parse(src, file string, line0 int) (err error) {
	defer func() {
		if r := recover(); r != nil {
			if e, ok := r.(error); ok {
				err = e
				return
			}
			panic(r)
		}
	}()
	// raw smt blocks are cut out first
	for {
		i := strings.Index(src, "smt {")
		if i < 0 {
			break
		}
		depth := 0
		j := i + 4
		for ; j < len(src); j++ {
			if src[j] == '{' {
				depth++
			} else if src[j] == '}' {
				depth--
				if depth == 0 {
					break
				}
			}
		}
		if j >= len(src) {
			return fmt.Errorf("%s: unterminated smt block", file)
		}
		body := src[i+5 : j]
		cs.SMT = append(cs.SMT, body)
		// keep line numbering
		src = src[:i] + strings.Repeat("\n", strings.Count(src[i:j+1], "\n")) + src[j+1:]
	}
	lx, err := lex(src, file, line0)
	if err != nil {
		return err
	}
	var cur *Contract
	// clause source text extraction helper
	for lx.peek().kind != "eof" {
		t := lx.next()
		if t.kind != "id" || !kwClause[t.s] {
			return fmt.Errorf("%s:%d: expected clause keyword, found %q", file, t.line, t.s)
		}
		switch t.s {
		case "func":
			key := lx.parseFuncKey()
			c := &Contract{Key: key, Loops: map[int]*LoopContract{}, File: file, Line: t.line, CallAsserts: map[string][]*Clause{}}
			lx.expect("(")
			for !lx.isOp(")") {
				c.Params = append(c.Params, lx.next().s)
				lx.accept(",")
			}
			lx.expect(")")
			if lx.accept("(") {
				for !lx.isOp(")") {
					c.Results = append(c.Results, lx.next().s)
					lx.accept(",")
				}
				lx.expect(")")
			}
			if _, dup := cs.Contracts[key]; dup {
				return fmt.Errorf("%s:%d: duplicate contract for %s", file, t.line, key)
			}
			cs.Contracts[key] = c
			cs.Order = append(cs.Order, key)
			cur = c
		case "global":
			// global call-site clauses ("at callee#any assert/set ..."), applied while verifying any function
			if cs.Global == nil {
				cs.Global = &Contract{Key: "global", Loops: map[int]*LoopContract{}, CallAsserts: map[string][]*Clause{}, CallSets: map[string][]SetDef{}}
			}
			cur = cs.Global
		case "assumed":
			cur.Assumed = true
		case "inline":
			cur.Inline = true
		case "pure":
			cur.Pure = true
		case "note":
			cur.Note = lx.next().s
		case "bounds":
			cur.CheckBounds = true
			cur.BoundsTags = lx.parseTags()
		case "requires", "ensures", "defines", "assumes":
			if cur == nil {
				return fmt.Errorf("%s:%d: clause outside func", file, t.line)
			}
			tags := lx.parseTags()
			start := lx.p
			e := lx.parseExpr()
			cl := &Clause{E: e, Src: lx.srcOf(start, lx.p), Tags: tags, Line: t.line}
			switch t.s {
			case "requires":
				cur.Requires = append(cur.Requires, cl)
			case "defines":
				// definitional axiom of a ghost spec function: assumed by the function and by its callers
				cur.Defines = append(cur.Defines, cl)
			case "assumes":
				// environment assumption about the function's inputs (data that entered from storage):
				// assumed by the function AND by its callers, and printed in the evidence
				cl.Src = "ASSUMED-INPUT-INVARIANT " + cl.Src
				cur.Defines = append(cur.Defines, cl)
			default:
				cur.Ensures = append(cur.Ensures, cl)
			}
		case "let":
			n := lx.next().s
			lx.expect("=")
			cur.Lets = append(cur.Lets, LetDef{n, lx.parseExpr()})
		case "modifies":
			for {
				start := lx.p
				e := lx.parseExpr()
				cur.Modifies = append(cur.Modifies, e)
				cur.ModSrc = append(cur.ModSrc, lx.srcOf(start, lx.p))
				if !lx.accept(",") {
					break
				}
			}
		case "at":
			// at callee#n assert [tag] expr   |   at callee#n set ghost = expr
			callee := lx.parseFuncKey()
			n := ""
			if i := strings.LastIndex(callee, "#"); i >= 0 {
				n = callee[i+1:]
				callee = callee[:i]
			} else {
				lx.expect("#")
				n = lx.next().s
			}
			kw := lx.next().s
			k := callee + "#" + n
			switch kw {
			case "assert":
				tags := lx.parseTags()
				start := lx.p
				e := lx.parseExpr()
				cur.CallAsserts[k] = append(cur.CallAsserts[k], &Clause{E: e, Src: lx.srcOf(start, lx.p), Tags: tags, Line: t.line})
			case "set", "reset":
				g := lx.next().s
				lx.expect("=")
				e := lx.parseExpr()
				if cur.CallSets == nil {
					cur.CallSets = map[string][]SetDef{}
				}
				cur.CallSets[k] = append(cur.CallSets[k], SetDef{g, e, kw == "reset"})
			default:
				return fmt.Errorf("%s:%d: expected assert, set or reset", file, t.line)
			}
		case "loop":
			nt := lx.next()
			n, err := strconv.Atoi(nt.s)
			if err != nil {
				return fmt.Errorf("%s:%d: loop ordinal expected", file, nt.line)
			}
			lx.accept(":")
			kw := lx.next()
			lc := cur.Loops[n]
			if lc == nil {
				lc = &LoopContract{}
				cur.Loops[n] = lc
			}
			tags := lx.parseTags()
			start := lx.p
			e := lx.parseExpr()
			cl := &Clause{E: e, Src: lx.srcOf(start, lx.p), Tags: tags, Line: kw.line}
			switch kw.s {
			case "invariant":
				lc.Invariants = append(lc.Invariants, cl)
			case "decreases":
				lc.Decreases = cl
			default:
				return fmt.Errorf("%s:%d: expected invariant/decreases, found %q", file, kw.line, kw.s)
			}
		case "pred":
			n := lx.next().s
			lx.expect("(")
			p := &PredDef{Name: n}
			for !lx.isOp(")") {
				vn := lx.next().s
				typ := lx.parseTypeStr()
				p.Params = append(p.Params, QVar{vn, typ})
				lx.accept(",")
			}
			lx.expect(")")
			lx.expect("=")
			p.Body = lx.parseExpr()
			if _, dup := cs.Preds[n]; dup {
				return fmt.Errorf("%s:%d: duplicate pred %s", file, t.line, n)
			}
			cs.Preds[n] = p
			cur = nil
		case "ghost":
			n := lx.next().s
			srt := lx.parseSortToks()
			s, err := parseSort(srt)
			if err != nil {
				return fmt.Errorf("%s:%d: %v", file, t.line, err)
			}
			cs.Ghosts[n] = s
			cur = nil
		case "spec":
			n := lx.next().s
			sf := &SpecFn{Name: n}
			lx.expect("(")
			for !lx.isOp(")") {
				srt := lx.parseSortToks()
				s, err := parseSort(srt)
				if err != nil {
					return fmt.Errorf("%s:%d: %v", file, t.line, err)
				}
				sf.Args = append(sf.Args, s)
				lx.accept(",")
			}
			lx.expect(")")
			s, err := parseSort(lx.parseSortToks())
			if err != nil {
				return fmt.Errorf("%s:%d: %v", file, t.line, err)
			}
			sf.Res = s
			cs.SpecFns[n] = sf
			cur = nil
		}
	}
	return nil
}

func (lx *lexer) parseSortToks() string {
	var sb strings.Builder
	for lx.isOp("[") {
		lx.next()
		sb.WriteString("[" + lx.next().s + "]")
		lx.expect("]")
	}
	sb.WriteString(lx.next().s)
	return sb.String()
}

func (lx *lexer) parseTags() []string {
	var tags []string
	for lx.isOp("[") {
		// lookahead: [ ident . ident ... ]
		save := lx.p
		lx.next()
		var sb strings.Builder
		ok := true
		for !lx.isOp("]") {
			t := lx.next()
			if t.kind == "eof" {
				ok = false
				break
			}
			sb.WriteString(t.s)
		}
		if !ok {
			lx.p = save
			break
		}
		lx.next()
		tags = append(tags, sb.String())
	}
	return tags
}

// parseFuncKey parses e.g. litestream.(*DB).sync | litestream.CalcRestorePlan | ltx.FileIterator.Next | file.(*ReplicaClient).WriteLTXFile
func (lx *lexer) parseFuncKey() string {
	var sb strings.Builder
	lastID := false
	for {
		t := lx.peek()
		if t.kind == "id" {
			if lastID {
				break
			}
			lastID = true
			sb.WriteString(lx.next().s)
			continue
		}
		lastID = false
		if t.kind == "op" && t.s == "." {
			lx.next()
			sb.WriteString(".")
		} else if t.kind == "op" && t.s == "(" {
			// only "(*" or "(T)" directly after a dot
			if !strings.HasSuffix(sb.String(), ".") {
				break
			}
			lx.next()
			sb.WriteString("(")
			if lx.accept("*") {
				sb.WriteString("*")
			}
			sb.WriteString(lx.next().s)
			lx.expect(")")
			sb.WriteString(")")
		} else if t.kind == "op" && t.s == "/" {
			lx.next()
			sb.WriteString("/")
		} else if t.kind == "op" && t.s == "$" {
			lx.next()
			sb.WriteString("$")
		} else {
			break
		}
	}
	return sb.String()
}

func (lx *lexer) srcOf(a, b int) string {
	var parts []string
	for i := a; i < b && i < len(lx.toks); i++ {
		t := lx.toks[i]
		if t.kind == "str" {
			parts = append(parts, strconv.Quote(t.s))
		} else {
			parts = append(parts, t.s)
		}
	}
	s := strings.Join(parts, " ")
	for _, r := range []string{" . ", " ( ", " )", " [ ", " ]", " ,"} {
		s = strings.ReplaceAll(s, r, strings.TrimSpace(r))
	}
	s = strings.ReplaceAll(s, ",", ", ")
	return s
}
