// Package main implements gvc, a verification-condition generator for Go
// functions (go/ssa, NaiveForm) whose obligations are discharged by SMT solvers.
package main

import (
	"fmt"
	"go/types"
	"regexp"
	"sort"
	"strings"

	"golang.org/x/tools/go/ssa"
)

// ---------------------------------------------------------------------------
// Sorts and terms

type Sort int

const (
	SInt Sort = iota
	SBool
	SArrII  // (Array Int Int)
	SArrIB  // (Array Int Bool)
	SArrIAI // (Array Int (Array Int Int))
	SArrIAB // (Array Int (Array Int Bool))
	SArrIAAI // (Array Int (Array Int (Array Int Int)))
	SArrIAAB // (Array Int (Array Int (Array Int Bool)))
)

func (s Sort) String() string {
	switch s {
	case SInt:
		return "Int"
	case SBool:
		return "Bool"
	case SArrII:
		return "(Array Int Int)"
	case SArrIB:
		return "(Array Int Bool)"
	case SArrIAI:
		return "(Array Int (Array Int Int))"
	case SArrIAB:
		return "(Array Int (Array Int Bool))"
	case SArrIAAI:
		return "(Array Int (Array Int (Array Int Int)))"
	case SArrIAAB:
		return "(Array Int (Array Int (Array Int Bool)))"
	}
	return "?"
}

func arrOf(s Sort) Sort {
	switch s {
	case SInt:
		return SArrII
	case SBool:
		return SArrIB
	case SArrII:
		return SArrIAI
	case SArrIB:
		return SArrIAB
	case SArrIAI:
		return SArrIAAI
	case SArrIAB:
		return SArrIAAB
	}
	panic("arrOf: unsupported sort " + s.String())
}

func elemOf(s Sort) Sort {
	switch s {
	case SArrII:
		return SInt
	case SArrIB:
		return SBool
	case SArrIAI:
		return SArrII
	case SArrIAB:
		return SArrIB
	case SArrIAAI:
		return SArrIAI
	case SArrIAAB:
		return SArrIAB
	}
	panic("elemOf: not an array sort " + s.String())
}

// T is an SMT term with its sort.
type T struct {
	S    string
	Sort Sort
}

func (t T) String() string { return t.S }

func I(n int64) T {
	if n < 0 {
		return T{fmt.Sprintf("(- %d)", -n), SInt}
	}
	return T{fmt.Sprintf("%d", n), SInt}
}
func IStr(dec string) T {
	if strings.HasPrefix(dec, "-") {
		return T{"(- " + dec[1:] + ")", SInt}
	}
	return T{dec, SInt}
}
func B(b bool) T {
	if b {
		return T{"true", SBool}
	}
	return T{"false", SBool}
}

var tTrue, tFalse = B(true), B(false)

func app(sort Sort, op string, args ...T) T {
	var sb strings.Builder
	sb.WriteByte('(')
	sb.WriteString(op)
	for _, a := range args {
		sb.WriteByte(' ')
		sb.WriteString(a.S)
	}
	sb.WriteByte(')')
	return T{sb.String(), sort}
}

func And(ts ...T) T {
	var xs []T
	for _, t := range ts {
		if t.S == "true" {
			continue
		}
		if t.S == "false" {
			return tFalse
		}
		xs = append(xs, t)
	}
	if len(xs) == 0 {
		return tTrue
	}
	if len(xs) == 1 {
		return xs[0]
	}
	return app(SBool, "and", xs...)
}
func Or(ts ...T) T {
	var xs []T
	for _, t := range ts {
		if t.S == "false" {
			continue
		}
		if t.S == "true" {
			return tTrue
		}
		xs = append(xs, t)
	}
	if len(xs) == 0 {
		return tFalse
	}
	if len(xs) == 1 {
		return xs[0]
	}
	return app(SBool, "or", xs...)
}
func Not(t T) T {
	if t.S == "true" {
		return tFalse
	}
	if t.S == "false" {
		return tTrue
	}
	if strings.HasPrefix(t.S, "(not ") {
		return T{t.S[5 : len(t.S)-1], SBool}
	}
	return app(SBool, "not", t)
}
func Imp(a, b T) T {
	if a.S == "true" {
		return b
	}
	if a.S == "false" || b.S == "true" {
		return tTrue
	}
	return app(SBool, "=>", a, b)
}
func Eq(a, b T) T {
	if a.S == b.S {
		return tTrue
	}
	return app(SBool, "=", a, b)
}
func Ite(c, a, b T) T {
	if c.S == "true" {
		return a
	}
	if c.S == "false" {
		return b
	}
	if a.S == b.S {
		return a
	}
	return app(a.Sort, "ite", c, a, b)
}
func Sel(a, i T) T { return app(elemOf(a.Sort), "select", a, i) }
func Sto(a, i, v T) T {
	return app(a.Sort, "store", a, i, v)
}
func smallLit(t T) (int64, bool) {
	if len(t.S) == 0 || len(t.S) > 15 {
		return 0, false
	}
	var n int64
	for _, c := range t.S {
		if c < '0' || c > '9' {
			return 0, false
		}
		n = n*10 + int64(c-'0')
	}
	return n, true
}
func Add(a, b T) T {
	x, ok1 := smallLit(a)
	y, ok2 := smallLit(b)
	switch {
	case ok1 && ok2:
		return I(x + y)
	case ok1 && x == 0:
		return b
	case ok2 && y == 0:
		return a
	}
	return app(SInt, "+", a, b)
}
func Sub(a, b T) T {
	x, ok1 := smallLit(a)
	y, ok2 := smallLit(b)
	switch {
	case ok1 && ok2:
		return I(x - y)
	case ok2 && y == 0:
		return a
	}
	return app(SInt, "-", a, b)
}
// Mul: products with a literal factor stay linear; a product of two symbolic
// values is the uninterpreted imul (prelude axioms: zero, sign, unit step),
// so that code and contract share one term and no solver needs nonlinear arithmetic.
func Mul(a, b T) T {
	if x, ok := smallLit(a); ok {
		if y, ok2 := smallLit(b); ok2 && x < 1<<30 && y < 1<<30 {
			return I(x * y)
		}
		return app(SInt, "*", a, b)
	}
	if _, ok := smallLit(b); ok {
		return app(SInt, "*", b, a)
	}
	if isLiteralTerm(a) || isLiteralTerm(b) {
		return app(SInt, "*", a, b)
	}
	return app(SInt, "imul", a, b)
}

func isLiteralTerm(t T) bool {
	s := t.S
	if strings.HasPrefix(s, "(- ") && strings.HasSuffix(s, ")") {
		s = s[3 : len(s)-1]
	}
	if s == "" {
		return false
	}
	for _, c := range s {
		if c < '0' || c > '9' {
			return false
		}
	}
	return true
}
func Le(a, b T) T  { return app(SBool, "<=", a, b) }
func Lt(a, b T) T  { return app(SBool, "<", a, b) }

// ---------------------------------------------------------------------------
// Values

// Val is a symbolic Go value: a leaf T or one of the composite kinds below.
type Val interface{}

type StructV struct {
	Typ types.Type // named or struct type
	F   []Val
}

type SliceV struct {
	Arr, Off, Len, Cap T
	Elem               types.Type
}

type TupleV struct{ E []Val }

type ClosV struct {
	Fn    *ssa.Function
	Binds []Val
}

// PtrV is a pointer with statically known shape.
type PtrKind int

const (
	PCell  PtrKind = iota // local cell (+ field path, + optional array index)
	PField                // scalar/leaf field of heap struct: Base ref, struct type ST, field index
	PElem                 // scalar element of slice backing array: Arr, Idx
	PGlobal               // package-level variable
)

type PtrV struct {
	Kind PtrKind
	Cell *Cell
	Path []int // field path inside cell (PCell/PGlobal)
	Base T     // PField: struct ref; PElem: backing array id
	ST   types.Type
	FI   int
	Idx  *T // PElem: index (absolute, includes slice offset); PCell: index into array leaf
	Sub  *T // PElem whose element is a small array: index inside that element
	Elem types.Type
	Glob string
}

// Cell is a local memory cell (one per executed ssa.Alloc that does not escape).
type Cell struct {
	ID   int
	Name string
	Typ  types.Type
}

func (c *Cell) String() string { return fmt.Sprintf("%s#%d", c.Name, c.ID) }

// ---------------------------------------------------------------------------
// State

type State struct {
	cells map[*Cell]Val
	glob  map[string]T // heap field arrays, element arrays, map arrays, ghost vars, globals
	rec   *writeRec
}

type writeRec struct {
	cells   map[*Cell]bool
	glob    map[string]bool
	offNon0 map[*Cell]bool // a slice value with non-literal-zero offset was written
}

func newWriteRec() *writeRec {
	return &writeRec{cells: map[*Cell]bool{}, glob: map[string]bool{}, offNon0: map[*Cell]bool{}}
}

func newState() *State {
	return &State{cells: map[*Cell]Val{}, glob: map[string]T{}}
}

func (s *State) clone() *State {
	n := &State{cells: make(map[*Cell]Val, len(s.cells)), glob: make(map[string]T, len(s.glob)), rec: s.rec}
	for k, v := range s.cells {
		n.cells[k] = v
	}
	for k, v := range s.glob {
		n.glob[k] = v
	}
	return n
}

func (s *State) setCell(c *Cell, v Val) {
	s.cells[c] = v
	if s.rec != nil {
		s.rec.cells[c] = true
		if sv, ok := v.(*SliceV); ok && sv.Off.S != "0" {
			s.rec.offNon0[c] = true
		}
	}
}

func (s *State) setGlob(k string, v T) {
	s.glob[k] = v
	if s.rec != nil {
		s.rec.glob[k] = true
	}
}

func sortedKeys[V any](m map[string]V) []string {
	ks := make([]string, 0, len(m))
	for k := range m {
		ks = append(ks, k)
	}
	sort.Strings(ks)
	return ks
}

// ---------------------------------------------------------------------------
// Type classification

func isNamed(t types.Type, pkg, name string) bool {
	n, ok := types.Unalias(t).(*types.Named)
	if !ok {
		return false
	}
	o := n.Obj()
	return o.Name() == name && o.Pkg() != nil && o.Pkg().Path() == pkg
}

func isTime(t types.Type) bool { return isNamed(t, "time", "Time") }

// opaqueStruct reports struct types we treat as a single Int leaf.
func opaqueStruct(t types.Type) bool {
	if isTime(t) {
		return true
	}
	n, ok := types.Unalias(t).(*types.Named)
	if !ok {
		return false
	}
	if n.Obj().Pkg() == nil {
		return false
	}
	p := n.Obj().Pkg().Path()
	switch p {
	case "sync", "sync/atomic", "bytes", "strings", "context", "log/slog", "os", "bufio", "net/http", "database/sql", "io", "hash/crc64", "encoding/json":
		return true
	}
	return false
}

type leafInfo struct {
	path []int
	sort Sort
	typ  types.Type
}

func intRange(t types.Type) (lo, hi string, ok bool) {
	b, isb := t.Underlying().(*types.Basic)
	if !isb {
		return
	}
	switch b.Kind() {
	case types.Int8:
		return "-128", "127", true
	case types.Int16:
		return "-32768", "32767", true
	case types.Int32:
		return "-2147483648", "2147483647", true
	case types.Int, types.Int64:
		return "-9223372036854775808", "9223372036854775807", true
	case types.Uint8:
		return "0", "255", true
	case types.Uint16:
		return "0", "65535", true
	case types.Uint32:
		return "0", "4294967295", true
	case types.Uint, types.Uint64, types.Uintptr:
		return "0", "18446744073709551615", true
	case types.UntypedInt:
		return "", "", false
	}
	return
}

func intBits(t types.Type) (bits int, signed bool, ok bool) {
	b, isb := t.Underlying().(*types.Basic)
	if !isb {
		return
	}
	switch b.Kind() {
	case types.Int8:
		return 8, true, true
	case types.Int16:
		return 16, true, true
	case types.Int32:
		return 32, true, true
	case types.Int, types.Int64:
		return 64, true, true
	case types.Uint8:
		return 8, false, true
	case types.Uint16:
		return 16, false, true
	case types.Uint32:
		return 32, false, true
	case types.Uint, types.Uint64, types.Uintptr:
		return 64, false, true
	}
	return
}

func pow2(n int) string {
	switch n {
	case 8:
		return "256"
	case 16:
		return "65536"
	case 32:
		return "4294967296"
	case 64:
		return "18446744073709551616"
	case 7:
		return "128"
	case 15:
		return "32768"
	case 31:
		return "2147483648"
	case 63:
		return "9223372036854775808"
	}
	panic("pow2")
}

// wrap reduces a mathematical integer to the Go type's range (exact modular semantics).
func wrap(t T, typ types.Type) T {
	bits, signed, ok := intBits(typ)
	if !ok {
		return t
	}
	if n, ok := smallLit(t); ok && bits >= 32 && n < 2147483648 {
		return t
	}
	// wrapS<w>/wrapU<w> are prelude macros: identity when in range, exact modular reduction otherwise
	if signed {
		return T{fmt.Sprintf("(wrapS%d %s)", bits, t.S), SInt}
	}
	return T{fmt.Sprintf("(wrapU%d %s)", bits, t.S), SInt}
}

// leafSort gives the SMT sort of a type that is represented as one leaf.
// ok=false for composite types (struct/slice/tuple).
func leafSort(t types.Type) (Sort, bool) {
	t = types.Unalias(t)
	if opaqueStruct(t) {
		return SInt, true
	}
	switch u := t.Underlying().(type) {
	case *types.Basic:
		if u.Info()&types.IsBoolean != 0 {
			return SBool, true
		}
		return SInt, true
	case *types.Pointer, *types.Interface, *types.Map, *types.Chan, *types.Signature:
		return SInt, true
	case *types.Array:
		es, ok := leafSort(u.Elem())
		if ok && (es == SInt || es == SBool) {
			return arrOf(es), true
		}
		return SInt, true // opaque
	case *types.Struct:
		return 0, false
	case *types.Slice:
		return 0, false
	case *types.Tuple:
		return 0, false
	case *types.TypeParam:
		return SInt, true
	}
	return SInt, true
}

func structOf(t types.Type) *types.Struct {
	if opaqueStruct(t) {
		return nil
	}
	s, _ := types.Unalias(t).Underlying().(*types.Struct)
	return s
}

var reByte = regexp.MustCompile(`\bbyte\b`)
var reRune = regexp.MustCompile(`\brune\b`)

func typeKey(t types.Type) string {
	t = types.Unalias(t)
	s := types.TypeString(t, func(p *types.Package) string { return p.Name() })
	s = reByte.ReplaceAllString(s, "uint8")
	s = reRune.ReplaceAllString(s, "int32")
	r := strings.NewReplacer("*", "P_", "[]", "S_", ".", "_", " ", "", "{", "_", "}", "_", "(", "_", ")", "_", ",", "_", "[", "_", "]", "_", ";", "_", "/", "_", "-", "_", "\"", "", ":", "_")
	return r.Replace(s)
}

func fieldKey(st types.Type, i int) string {
	s := structOf(st)
	return "H_" + typeKey(st) + "_" + s.Field(i).Name()
}

func subFn(st types.Type, i int) string {
	s := structOf(st)
	return "sub_" + typeKey(st) + "_" + s.Field(i).Name()
}
