package main

import (
	"encoding/json"
	"fmt"
	"os"
	"os/exec"
	"path/filepath"
	"regexp"
	"runtime"
	"sort"
	"strings"
)

// runSelfTests applies every kept breaking change of the property (seeded/<id>/patch.diff and
// mutants/<id>/*.diff) to copies of the touched files, loads the tree with those copies as an
// overlay, regenerates the obligations of the property's functions and reports whether at least
// one obligation fails. It never alters /repo and never turns into a VIOLATION: a missed change
// is a weakness of the check, not of the tree, and is recorded in the evidence file.
var selfTestOnly []string // when set: exactly these patches (gvc check -mutant)

func runSelfTests(ps *PropSpec, root, repo string, patterns []string, tags string, timeoutS int, kfs []knownFinding) []map[string]any {
	var diffs []string
	if len(selfTestOnly) > 0 {
		return runSelfTestDiffs(selfTestOnly, ps, root, repo, patterns, tags, timeoutS, kfs)
	}
	if m, _ := filepath.Glob(filepath.Join(root, "seeded", ps.ID, "patch.diff")); len(m) > 0 {
		diffs = append(diffs, m...)
	}
	if m, _ := filepath.Glob(filepath.Join(root, "seeded", ps.ID+"-r*", "patch.diff")); len(m) > 0 {
		sort.Strings(m)
		diffs = append(diffs, m...)
	}
	if m, _ := filepath.Glob(filepath.Join(root, "mutants", ps.ID, "*.diff")); len(m) > 0 {
		sort.Strings(m)
		diffs = append(diffs, m...)
	}
	return runSelfTestDiffs(diffs, ps, root, repo, patterns, tags, timeoutS, kfs)
}

func runSelfTestDiffs(diffs []string, ps *PropSpec, root, repo string, patterns []string, tags string, timeoutS int, kfs []knownFinding) []map[string]any {
	var out []map[string]any
	reFile := regexp.MustCompile(`(?m)^\+\+\+ b/(\S+)`)
	for _, d := range diffs {
		rec := map[string]any{"change": strings.TrimPrefix(d, root+"/")}
		out = append(out, rec)
		b, err := os.ReadFile(d)
		if err != nil {
			rec["result"] = "unreadable"
			continue
		}
		tmp, _ := os.MkdirTemp("", "gvcmut")
		overlay := map[string][]byte{}
		ok := true
		var files []string
		for _, m := range reFile.FindAllStringSubmatch(string(b), -1) {
			files = append(files, m[1])
			src, err := os.ReadFile(filepath.Join(repo, m[1]))
			if err != nil {
				ok = false
				break
			}
			os.MkdirAll(filepath.Dir(filepath.Join(tmp, m[1])), 0o755)
			os.WriteFile(filepath.Join(tmp, m[1]), src, 0o644)
		}
		if ok {
			cmd := exec.Command("patch", "-p1", "-s", "-f", "-d", tmp, "-i", d)
			if err := cmd.Run(); err != nil {
				ok = false
			}
		}
		if !ok {
			rec["result"] = "does-not-apply"
			os.RemoveAll(tmp)
			continue
		}
		for _, f := range files {
			nb, _ := os.ReadFile(filepath.Join(tmp, f))
			overlay[filepath.Join(repo, f)] = nb
		}
		os.RemoveAll(tmp)
		e := newEngine(repo)
		if err := e.loadSpecDir(filepath.Join(root, "specs")); err != nil {
			rec["result"] = "error: " + err.Error()
			continue
		}
		if err := e.load(patterns, tags, overlay); err != nil {
			rec["result"] = "does-not-compile"
			continue
		}
		e.useGlobals = ps.Globals
		fns := append([]string{}, ps.Functions...)
		if ps.Sweep != nil {
			have := map[string]bool{}
			for _, k := range fns {
				have[k] = true
			}
			for _, k := range e.sweepFunctions(ps.Sweep.Packages, ps.Sweep.Callees) {
				if !have[k] {
					e.synthContract(k)
					fns = append(fns, k)
				}
			}
		}
		var all []*Oblig
		nErr := 0
		for _, k := range fns {
			r := e.verifyFunc(k)
			if r.Err != nil {
				nErr++
				continue
			}
			all = append(all, r.Obligs...)
		}
		lem, _ := loadLemmas(root, ps.Lemmas, e)
		all = append(all, lem...)
		dir, _ := os.MkdirTemp("", "gvc")
		e.solveAll(all, dir, timeoutS, runtime.NumCPU())
		os.RemoveAll(dir)
		var failed []string
		for _, o := range all {
			if o.ok() {
				continue
			}
			known := false
			for _, k := range kfs {
				if !k.fixed && k.prop == ps.ID && k.oblig == o.ID {
					known = true
				}
			}
			if !known {
				failed = append(failed, o.ID)
			}
		}
		sort.Strings(failed)
		if len(failed) > 6 {
			failed = append(failed[:6], fmt.Sprintf("... %d more", len(failed)-6))
		}
		rec["failed_obligations"] = failed
		rec["contract_applies_failures"] = nErr
		if len(failed) > 0 || nErr > 0 {
			rec["result"] = "caught"
		} else {
			rec["result"] = "MISSED"
			// a change kept although no contract within reach can see it (reason in its meta.json)
			if mb, err := os.ReadFile(filepath.Join(filepath.Dir(d), "meta.json")); err == nil {
				var meta map[string]any
				if json.Unmarshal(mb, &meta) == nil {
					if why, ok := meta["documented_miss"].(string); ok && why != "" {
						rec["result"] = "missed-documented"
						rec["reason"] = why
					}
				}
			}
		}
		fmt.Printf("SELFTEST property=%s change=%s %s\n", ps.ID, rec["change"], rec["result"])
	}
	return out
}
