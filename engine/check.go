package main

func runCheck(args []string) {}
