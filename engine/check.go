package main

import (
	"encoding/json"
	"flag"
	"fmt"
	"os"
	"path/filepath"
	"regexp"
	"runtime"
	"sort"
	"strconv"
	"strings"
	"time"
)

// PropSpec is /verif/props/Cxx.json.
type PropSpec struct {
	ID          string   `json:"id"`
	Title       string   `json:"title"`
	Functions   []string `json:"functions"`
	Lemmas      []string `json:"lemmas"`
	Floor       int      `json:"floor"`
	Tags        string   `json:"tags"`
	Patterns    []string `json:"patterns"`
	Assumptions []string `json:"assumptions"`
	Explanation string   `json:"explanation"`
	Bounded     []struct {
		What string `json:"what"`
		Cmd  string `json:"cmd"`
	} `json:"bounded"`
	Globals bool `json:"globals"`
	Sweep   *struct {
		Packages []string `json:"packages"`
		Callees  []string `json:"callees"`
		MinSites int      `json:"min_sites"`
	} `json:"sweep"`
	Replay *struct {
		Template string `json:"template"`
		Pkg      string `json:"pkg"`
		Run      string `json:"run"`
		Tags     string `json:"tags"`
	} `json:"replay"`
}

type obligRec struct {
	ID     string  `json:"id"`
	Kind   string  `json:"kind"`
	Clause string  `json:"clause,omitempty"`
	Tags   []string `json:"tags,omitempty"`
	Result string  `json:"result"`
	Solver string  `json:"solver"`
	TimeS  float64 `json:"time_s"`
}

type knownFinding struct {
	fixed bool
	prop  string
	oblig string
	text  string
}

func loadKnownFindings(path string) []knownFinding {
	b, err := os.ReadFile(path)
	if err != nil {
		return nil
	}
	var out []knownFinding
	reProp := regexp.MustCompile(`property=(\S+)`)
	reObl := regexp.MustCompile(`obligation=(\S+)`)
	for _, line := range strings.Split(string(b), "\n") {
		line = strings.TrimSpace(line)
		if line == "" || strings.HasPrefix(line, "#") {
			continue
		}
		kf := knownFinding{text: line}
		switch {
		case strings.HasPrefix(line, "finding:"):
		case strings.HasPrefix(line, "fixed:"):
			kf.fixed = true
		default:
			continue
		}
		if m := reProp.FindStringSubmatch(line); m != nil {
			kf.prop = m[1]
		}
		if m := reObl.FindStringSubmatch(line); m != nil {
			kf.oblig = m[1]
		}
		out = append(out, kf)
	}
	return out
}

func runCheck(args []string) {
	fs := flag.NewFlagSet("check", flag.ExitOnError)
	repo := fs.String("repo", "/repo", "repository")
	root := fs.String("verif", "/verif", "verif root")
	tier := fs.String("tier", "quick", "quick|thorough")
	propFile := fs.String("prop", "", "property spec json")
	timeout := fs.Int("timeout", 0, "per-obligation timeout (s); default by tier")
	keep := fs.String("dump", "", "keep SMT files here")
	mutant := fs.String("mutant", "", "only apply this patch through an overlay and report whether the property's obligations catch it (the working tree and the evidence are not touched)")
	fs.Parse(args)
	t0 := time.Now()
	fail := func(format string, a ...any) {
		fmt.Printf("ERROR "+format+"\n", a...)
		os.Exit(2)
	}
	if *propFile == "" {
		fail("missing -prop")
	}
	b, err := os.ReadFile(*propFile)
	if err != nil {
		fail("%v", err)
	}
	var ps PropSpec
	if err := json.Unmarshal(b, &ps); err != nil {
		fail("%s: %v", *propFile, err)
	}
	if v := os.Getenv("VERIF_TIER"); v == "quick" || v == "thorough" {
		*tier = v
	}
	seed := 0
	if v := os.Getenv("VERIF_SEED"); v != "" {
		seed, _ = strconv.Atoi(v)
	}
	to := *timeout
	if to == 0 {
		to = 12
		if *tier == "thorough" {
			to = 60
		}
	}
	tags := "verif"
	if ps.Tags != "" {
		tags = ps.Tags
	}
	patterns := defaultPatterns
	if len(ps.Patterns) > 0 {
		patterns = ps.Patterns
	}
	if *mutant != "" {
		selfTestOnly = []string{*mutant}
		for _, r := range runSelfTests(&ps, *root, *repo, patterns, tags, to, loadKnownFindings(filepath.Join(*root, "known_findings.txt"))) {
			b, _ := json.Marshal(r)
			fmt.Println(string(b))
		}
		return
	}
	e := newEngine(*repo)
	if err := e.loadSpecDir(filepath.Join(*root, "specs")); err != nil {
		fail("specs: %v", err)
	}
	if err := e.load(patterns, tags, nil); err != nil {
		// A tree that does not compile is not a property violation.
		fail("cannot load %s: %v", *repo, err)
	}
	loadS := time.Since(t0).Seconds()
	dir := *keep
	if dir == "" {
		d, _ := os.MkdirTemp("", "gvc")
		dir = d
		defer os.RemoveAll(d)
	} else {
		os.MkdirAll(dir, 0o755)
	}
	var all []*Oblig
	warns := []string{}
	assumed := map[string]bool{}
	var funcErrs []string
	e.useGlobals = ps.Globals
	var swept []string
	if ps.Sweep != nil {
		// closed-world sweep: every function of the package(s) that contains one of the
		// call sites is verified against the global call-site clauses
		swept = e.sweepFunctions(ps.Sweep.Packages, ps.Sweep.Callees)
		if len(swept) < ps.Sweep.MinSites {
			fail("sweep found only %d functions with the listed call sites (expected at least %d): vacuity guard", len(swept), ps.Sweep.MinSites)
		}
		have := map[string]bool{}
		for _, k := range ps.Functions {
			have[k] = true
		}
		for _, k := range swept {
			if !have[k] {
				e.synthContract(k)
				ps.Functions = append(ps.Functions, k)
			}
		}
	}
	for _, k := range ps.Functions {
		r := e.verifyFunc(k)
		if r.Err != nil {
			funcErrs = append(funcErrs, r.Err.Error())
			continue
		}
		all = append(all, r.Obligs...)
		for _, w := range r.Warns {
			warns = append(warns, k+": "+w)
		}
		for _, a := range r.Assumed {
			assumed[a] = true
		}
	}
	// lemmas
	lemmaObls, lerr := loadLemmas(*root, ps.Lemmas, e)
	if lerr != nil {
		fail("lemmas: %v", lerr)
	}
	all = append(all, lemmaObls...)
	e.solveAll(all, dir, to, runtime.NumCPU())
	// Instability guard: an obligation left undecided (timeout/unknown, no counterexample) is
	// tried once more with a much larger cap and little parallelism, so that machine load
	// or solver luck does not turn into an alarm. A refuted obligation (sat) is never retried.
	var retry []*Oblig
	kfs0 := loadKnownFindings(filepath.Join(*root, "known_findings.txt"))
	listed := func(id string) bool {
		for _, k := range kfs0 {
			if !k.fixed && k.prop == ps.ID && k.oblig == id {
				return true
			}
		}
		return false
	}
	for _, o := range all {
		if !o.ok() && o.Result != "sat" && !listed(o.ID) {
			retry = append(retry, o)
		}
	}
	if len(retry) > 0 && len(retry) <= 24 {
		e.solveAll(retry, dir, to*3, 8)
	}

	kfs := loadKnownFindings(filepath.Join(*root, "known_findings.txt"))
	isKnown := func(id string) *knownFinding {
		for i := range kfs {
			if !kfs[i].fixed && kfs[i].prop == ps.ID && kfs[i].oblig == id {
				return &kfs[i]
			}
		}
		return nil
	}
	replayDir := filepath.Join(*root, "evidence", "replay", ps.ID)
	os.RemoveAll(replayDir)
	var recs []obligRec
	nOK, nObl, nViol := 0, 0, 0
	var knownHit []string
	var solverTime float64
	bySolver := map[string]int{}
	var violLines []string
	for _, o := range all {
		recs = append(recs, obligRec{o.ID, o.Kind, o.Clause, o.Tags, o.Result, o.Solver, round3(o.TimeS)})
		solverTime += o.TimeS
		if o.ok() {
			nObl++
			nOK++
			bySolver[o.Solver]++
			continue
		}
		if kf := isKnown(o.ID); kf != nil {
			knownHit = append(knownHit, kf.text)
			fmt.Printf("KNOWN-FINDING: property=%s %s\n", ps.ID, strings.TrimPrefix(strings.TrimPrefix(kf.text, "finding: "), "property="+ps.ID+" "))
			continue
		}
		nObl++
		nViol++
		os.MkdirAll(replayDir, 0o755)
		rp := filepath.Join(replayDir, sanitize(o.ID)+".json")
		suffix := writeReplay(rp, &ps, o, e, *repo, *root)
		violLines = append(violLines, fmt.Sprintf("VIOLATION property=%s replay=%s%s", ps.ID, rp, suffix))
	}
	// a known finding whose obligation now passes is simply not reported
	for i, fe := range funcErrs {
		fmt.Println("ERROR", fe)
		// A function under contract whose contract no longer applies (function renamed or removed, a
		// variable the contract names is gone) leaves every clause anchored in it undecided: the
		// obligation "<function>/contract-applies" passed on the unchanged tree and fails now.
		nObl++
		nViol++
		os.MkdirAll(replayDir, 0o755)
		rp := filepath.Join(replayDir, fmt.Sprintf("contract_applies_%d.json", i))
		rb, _ := json.MarshalIndent(map[string]any{
			"property": ps.ID, "obligation": "contract-applies", "kind": "contract-applies", "verdict": "undecided",
			"reason": fe, "replay": map[string]any{"attempted": false, "reason": "no obligation could be generated, so there is no counterexample to replay"},
		}, "", " ")
		os.WriteFile(rp, rb, 0o644)
		violLines = append(violLines, fmt.Sprintf("VIOLATION property=%s replay=%s no-failing-input-found", ps.ID, rp))
	}
	sort.Strings(violLines)
	for _, l := range violLines {
		fmt.Println(l)
	}
	// evidence
	var samples []any
	for i, r := range recs {
		if i%maxInt(1, len(recs)/8) == 0 && len(samples) < 10 {
			samples = append(samples, r)
		}
	}
	var fns []string
	fns = append(fns, ps.Functions...)
	trusted := []string{
		"golang.org/x/tools go/ssa v0.50.0 (NaiveForm) implements Go semantics",
		"gvc VC generator (this engine): symbolic execution, memory model, loop cutting",
		"SMT solvers z3 4.8.12 / z3 5.1.0 / cvc5 1.0 (unsat verdicts)",
	}
	var assumedList []string
	for a := range assumed {
		assumedList = append(assumedList, a)
	}
	sort.Strings(assumedList)
	assumptions := append([]string{}, ps.Assumptions...)
	assumptions = append(assumptions, assumedList...)
	assumptions = append(assumptions,
		"integers: mathematical Int with exact mod-2^w wrapping on every Go arithmetic result (no overflow assumed away); contract arithmetic is mathematical",
		"mutexes/atomics are sequential no-ops; goroutines and schedules are out of scope of these contracts",
		"calls without contract: results unconstrained, static mod-set havocked (listed above when used)")
	for _, w := range warns {
		assumptions = append(assumptions, "engine abstraction: "+w)
	}
	cover := map[string]any{
		"obligations":              nObl,
		"discharged":               nOK,
		"checker_cmd":              fmt.Sprintf("bin/check %s %s", ps.ID, *tier),
		"trusted_base":             trusted,
		"samples":                  samples,
		"exhaustive":               false,
		"explanation":              ps.Explanation,
		"functions_under_contract": fns,
		"obligation_list":          recs,
		"solver_time_s":            round3(solverTime),
		"discharged_by":            bySolver,
		"load_s":                   round3(loadS),
		"per_obligation_timeout_s": to,
		"known_findings":           knownHit,
		"bounded":                  ps.Bounded,
		"lemma_files":              ps.Lemmas,
		"errors":                   funcErrs,
	}
	if *tier == "thorough" && nViol == 0 && len(funcErrs) == 0 {
		// must-fail self-test: every kept breaking change (seeded/, mutants/) is applied through an
		// overlay (the working tree is not touched) and has to fail at least one obligation
		st := runSelfTests(&ps, *root, *repo, patterns, tags, 12, kfs0)
		cover["selftest_must_fail"] = st
	}
	ev := map[string]any{
		"property_id": ps.ID,
		"tier":        *tier,
		"seed":        seed,
		"level":       "proof",
		"coverage":    cover,
		"assumptions": assumptions,
		"wall_s":      round3(time.Since(t0).Seconds()),
		"violations":  nViol,
	}
	os.MkdirAll(filepath.Join(*root, "evidence"), 0o755)
	eb, _ := json.MarshalIndent(ev, "", " ")
	os.WriteFile(filepath.Join(*root, "evidence", ps.ID+".json"), eb, 0o644)
	fmt.Printf("%s %s: %d obligations, %d discharged, %d violations, %d known findings, %.1fs (load %.1fs)\n", ps.ID, *tier, nObl, nOK, nViol, len(knownHit), time.Since(t0).Seconds(), loadS)
	if *keep == "" {
		os.RemoveAll(dir) // os.Exit below skips deferred calls
	}
	if len(funcErrs) > 0 {
		os.Exit(1)
	}
	if nObl < ps.Floor {
		fmt.Printf("ERROR obligation count %d below floor %d (vacuity guard)\n", nObl, ps.Floor)
		os.Exit(2)
	}
	if nViol > 0 {
		os.Exit(1)
	}
}

func maxInt(a, b int) int {
	if a > b {
		return a
	}
	return b
}

func round3(f float64) float64 { return float64(int(f*1000+0.5)) / 1000 }

// loadLemmas reads lemma files: SMT-LIB text split at lines "; lemma <name>".
// Text before the first marker is a shared prelude.
func loadLemmas(root string, files []string, e *Engine) ([]*Oblig, error) {
	var out []*Oblig
	for _, f := range files {
		b, err := os.ReadFile(filepath.Join(root, f))
		if err != nil {
			return nil, err
		}
		lines := strings.Split(string(b), "\n")
		var prelude []string
		var cur []string
		name := ""
		tags := []string{}
		flush := func() {
			if name == "" {
				return
			}
			vc := newVC(e, "lemma:"+filepath.Base(f))
			vc.sigs = append(vc.sigs, prelude...)
			vc.sigs = append(vc.sigs, cur...)
			o := &Oblig{ID: "lemma:" + filepath.Base(f) + "/" + name, Kind: "lemma", Fn: f, Clause: name, Tags: tags,
				nsigs: len(vc.sigs), nassert: 0, Reach: tTrue, Goal: tFalse, vc: vc, Expect: "unsat"}
			out = append(out, o)
		}
		for _, l := range lines {
			if strings.HasPrefix(l, "; lemma ") {
				flush()
				name = strings.TrimSpace(strings.TrimPrefix(l, "; lemma "))
				cur = nil
				continue
			}
			if strings.Contains(l, "(check-sat)") || strings.Contains(l, "(set-logic") || strings.Contains(l, "(set-option") || strings.Contains(l, "(get-model)") {
				continue
			}
			if name == "" {
				prelude = append(prelude, l)
			} else {
				cur = append(cur, l)
			}
		}
		flush()
	}
	return out, nil
}

// writeReplay records the failed obligation and attempts a replay against the real code.
// It returns the suffix for the VIOLATION line ("" or " no-failing-input-found").
func writeReplay(path string, ps *PropSpec, o *Oblig, e *Engine, repo, root string) string {
	rep := map[string]any{
		"property":   ps.ID,
		"obligation": o.ID,
		"kind":       o.Kind,
		"function":   o.Fn,
		"clause":     o.Clause,
		"tags":       o.Tags,
		"position":   o.Pos,
		"verdict":    o.Result,
		"solver":     o.Solver,
		"solver_outputs": o.Outputs,
	}
	suffix := " no-failing-input-found"
	if o.Model != "" {
		rep["model"] = trimOut(o.Model)
	}
	if ps.Replay != nil {
		res := runReplay(ps, o, repo, root)
		rep["replay"] = res
		if ok, _ := res["failing_input_found"].(bool); ok {
			suffix = ""
		}
	} else {
		rep["replay"] = map[string]any{"attempted": false, "reason": "no replay harness for this property"}
	}
	b, _ := json.MarshalIndent(rep, "", " ")
	os.WriteFile(path, b, 0o644)
	return suffix
}

// runReplay injects the property's replay test (an independent oracle driving the
// real code over small inputs) into /repo through `go test -overlay` and reports
// whether it found a concrete failing input.
var replayCache = map[string]map[string]any{}

func runReplay(ps *PropSpec, o *Oblig, repo, root string) map[string]any {
	// one harness run per check and obligation class (the harness explores the same inputs for every obligation of a class)
	ck := ps.Replay.Template + "|" + fmt.Sprint(strings.Contains(o.ID, "eneration"))
	if r, ok := replayCache[ck]; ok {
		return r
	}
	r := runReplay0(ps, o, repo, root)
	replayCache[ck] = r
	return r
}

func runReplay0(ps *PropSpec, o *Oblig, repo, root string) map[string]any {
	res := map[string]any{"attempted": true, "harness": ps.Replay.Template}
	tmpl, err := os.ReadFile(filepath.Join(root, ps.Replay.Template))
	if err != nil {
		res["error"] = err.Error()
		return res
	}
	tmp, err := os.MkdirTemp("", "gvcreplay")
	if err != nil {
		res["error"] = err.Error()
		return res
	}
	defer os.RemoveAll(tmp)
	src := filepath.Join(tmp, "zz_verif_replay_test.go")
	os.WriteFile(src, tmpl, 0o644)
	pkgDir := filepath.Join(repo, ps.Replay.Pkg)
	ov := map[string]any{"Replace": map[string]string{filepath.Join(pkgDir, "zz_verif_replay_test.go"): src}}
	ob, _ := json.Marshal(ov)
	ovf := filepath.Join(tmp, "overlay.json")
	os.WriteFile(ovf, ob, 0o644)
	args := []string{"test", "-mod=mod", "-overlay", ovf, "-vet=off", "-count=1", "-timeout", "420s", "-run", ps.Replay.Run}
	if ps.Replay.Tags != "" {
		args = append(args, "-tags", ps.Replay.Tags)
	}
	args = append(args, ".")
	out, code := runCmd(pkgDir, append(os.Environ(), "GOPROXY=off", "VERIF_OBLIGATION="+o.ID, "VERIF_REPLAY=1"), 480, "go", args...)
	res["cmd"] = "go " + strings.Join(args, " ")
	res["exit"] = code
	var hits []string
	for _, l := range strings.Split(out, "\n") {
		if i := strings.Index(l, "FAILING-INPUT:"); i >= 0 {
			hits = append(hits, strings.TrimSpace(l[i:]))
		}
	}
	if len(hits) > 8 {
		hits = hits[:8]
	}
	res["failing_inputs"] = hits
	res["failing_input_found"] = len(hits) > 0 && code != 0
	if len(hits) == 0 {
		res["output_tail"] = tail(out, 1500)
	}
	return res
}

func tail(s string, n int) string {
	if len(s) > n {
		return s[len(s)-n:]
	}
	return s
}
