package main

import (
	"go/token"
	"fmt"
	"go/types"
	"sort"
	"strings"

	"golang.org/x/tools/go/ssa"
)

// funcKey gives the contract key of an SSA function:
//   pkgname.Func | pkgname.(*T).Method | pkgname.(T).Method | pkgname.Outer$1
func funcKey(fn *ssa.Function) string {
	if fn == nil {
		return "?"
	}
	pkgName := ""
	if fn.Pkg != nil {
		pkgName = fn.Pkg.Pkg.Name()
	} else if fn.Parent() != nil {
		return funcKey(fn.Parent()) + "$" + strings.TrimPrefix(fn.Name(), fn.Parent().Name()+"$")
	}
	if fn.Parent() != nil {
		return funcKey(fn.Parent()) + "$" + strings.TrimPrefix(fn.Name(), fn.Parent().Name()+"$")
	}
	if recv := fn.Signature.Recv(); recv != nil {
		rt := recv.Type()
		ptr := false
		if p, ok := rt.(*types.Pointer); ok {
			rt = p.Elem()
			ptr = true
		}
		name := "?"
		if n, ok := types.Unalias(rt).(*types.Named); ok {
			name = n.Obj().Name()
			if n.Obj().Pkg() != nil {
				pkgName = n.Obj().Pkg().Name()
			}
		}
		if ptr {
			return fmt.Sprintf("%s.(*%s).%s", pkgName, name, fn.Name())
		}
		return fmt.Sprintf("%s.(%s).%s", pkgName, name, fn.Name())
	}
	if pkgName == "" && fn.Object() != nil && fn.Object().Pkg() != nil {
		pkgName = fn.Object().Pkg().Name()
	}
	return pkgName + "." + fn.Name()
}

// fieldFuncKey names a call through a function-typed struct field: pkg.Type.field
// (e.g. litestream.DB.openLTXFile), or "" if the callee value is not such a load.
func fieldFuncKey(c *ssa.CallCommon) string {
	if c == nil || c.IsInvoke() {
		return ""
	}
	ld, ok := c.Value.(*ssa.UnOp)
	if !ok {
		return ""
	}
	fa, ok := ld.X.(*ssa.FieldAddr)
	if !ok {
		return ""
	}
	pt, ok := fa.X.Type().Underlying().(*types.Pointer)
	if !ok {
		return ""
	}
	n, ok := types.Unalias(pt.Elem()).(*types.Named)
	if !ok || n.Obj().Pkg() == nil {
		return ""
	}
	s, ok := n.Underlying().(*types.Struct)
	if !ok || fa.Field >= s.NumFields() {
		return ""
	}
	return n.Obj().Pkg().Name() + "." + n.Obj().Name() + "." + s.Field(fa.Field).Name()
}

func invokeKey(c *ssa.CallCommon) string {
	rt := types.Unalias(c.Value.Type())
	name := rt.String()
	if n, ok := rt.(*types.Named); ok {
		name = n.Obj().Name()
		if n.Obj().Pkg() != nil {
			name = n.Obj().Pkg().Name() + "." + name
		}
	}
	return name + "." + c.Method.Name()
}

func (fr *Frame) call(site ssa.Instruction, c *ssa.CallCommon, cond T, st *State) (Val, T) {
	var args []Val
	if c.IsInvoke() {
		args = append(args, fr.val(c.Value))
	}
	for _, a := range c.Args {
		args = append(args, fr.val(a))
	}
	var fv Val
	if !c.IsInvoke() {
		fv = fr.val(c.Value)
	}
	return fr.doCall(site, c, fv, args, cond, st)
}

func resultType(c *ssa.CallCommon) types.Type {
	sig := c.Signature()
	switch sig.Results().Len() {
	case 0:
		return nil
	case 1:
		return sig.Results().At(0).Type()
	}
	return sig.Results()
}

// doCall runs the caller-contract hooks attached to this call site (asserted
// clauses before the call, ghost updates after it) around the call itself.
func (fr *Frame) doCall(site ssa.Instruction, c *ssa.CallCommon, fv Val, args []Val, cond T, st *State) (Val, T) {
	vc := fr.x.vc
	gl := vc.eng.cs.Global
	if !vc.eng.useGlobals {
		gl = nil
	}
	if fr.ct == nil || !fr.top || (len(fr.ct.CallAsserts) == 0 && len(fr.ct.CallSets) == 0 && gl == nil) {
		return fr.doCall0(site, c, fv, args, cond, st)
	}
	assertsFor := func(k string) []*Clause {
		out := fr.ct.CallAsserts[k]
		if gl != nil && strings.HasSuffix(k, "#any") {
			out = append(append([]*Clause(nil), out...), gl.CallAsserts[k]...)
		}
		return out
	}
	setsFor := func(k string) []SetDef {
		out := fr.ct.CallSets[k]
		if gl != nil && strings.HasSuffix(k, "#any") {
			out = append(append([]SetDef(nil), out...), gl.CallSets[k]...)
		}
		return out
	}
	key := ""
	if c.IsInvoke() {
		key = invokeKey(c)
	} else if cv, ok := fv.(*ClosV); ok {
		key = funcKey(cv.Fn)
	} else {
		key = fieldFuncKey(c)
	}
	if key == "" {
		return fr.doCall0(site, c, fv, args, cond, st)
	}
	seq := fr.siteOrdinal(site, key)
	// #n: the n-th call site; #all: every call site (at least one must exist); #any: every call site, if any
	keys := []string{fmt.Sprintf("%s#%d", key, seq), key + "#all", key + "#any"}
	bind := func(cev *Eval) {
		sig := c.Signature()
		off := 0
		if sig.Recv() != nil || c.IsInvoke() {
			off = 1
			if len(args) > 0 {
				var rt types.Type
				if c.IsInvoke() {
					rt = c.Value.Type()
				} else if sig.Recv() != nil {
					rt = sig.Recv().Type()
				}
				cev.names["$recv"] = tv{args[0], rt}
			}
		}
		for i := 0; i < sig.Params().Len() && i+off < len(args); i++ {
			cev.names[fmt.Sprintf("$arg%d", i)] = tv{args[i+off], sig.Params().At(i).Type()}
		}
	}
	if vc.dry == 0 {
		if vc.firedSites == nil {
			vc.firedSites = map[string]bool{}
		}
		for _, k := range keys {
			vc.firedSites[k] = true
		}
	}
	for _, k := range keys {
		for _, sd := range setsFor(k) {
			if !sd.Before {
				continue
			}
			srt, ok := vc.eng.cs.Ghosts[sd.Ghost]
			if !ok {
				panic(fmt.Errorf("contract %s: reset of undeclared ghost %s", fr.ct.Key, sd.Ghost))
			}
			cev := fr.evaluator(st)
			bind(cev)
			v := cev.eval(sd.E)
			t, isT := v.v.(T)
			if !isT || t.Sort != srt {
				panic(fmt.Errorf("contract %s: reset %s: sort mismatch", fr.ct.Key, sd.Ghost))
			}
			st.setGlob(sd.Ghost, vc.name(sd.Ghost, t))
		}
	}
	for _, k := range keys {
		if cls := assertsFor(k); len(cls) > 0 {
			cev := fr.evaluator(st)
			bind(cev)
			for i, cl := range cls {
				label := fmt.Sprintf("%d.%d", seq, i)
				if len(cl.Tags) > 0 {
					label = fmt.Sprintf("%d.%s", seq, cl.Tags[0])
				}
				vc.oblige("assert@"+key, label, cl.Src, cl.Tags, fr.posOf(site), cond, cev.evalBool(cl.E))
			}
		}
	}
	res, c2 := fr.doCall0(site, c, fv, args, cond, st)
	for _, k := range keys {
		for _, sd := range setsFor(k) {
			if sd.Before {
				continue
			}
			srt, ok := vc.eng.cs.Ghosts[sd.Ghost]
			if !ok {
				panic(fmt.Errorf("contract %s: set of undeclared ghost %s", fr.ct.Key, sd.Ghost))
			}
			cev := fr.evaluator(st)
			bind(cev)
			sig := c.Signature()
			switch rv := res.(type) {
			case *TupleV:
				for i := range rv.E {
					if i < sig.Results().Len() {
						cev.names[fmt.Sprintf("$result%d", i)] = tv{rv.E[i], sig.Results().At(i).Type()}
					}
				}
			case nil:
			default:
				if sig.Results().Len() == 1 {
					cev.names["$result0"] = tv{rv, sig.Results().At(0).Type()}
				}
			}
			v := cev.eval(sd.E)
			t, isT := v.v.(T)
			if !isT || t.Sort != srt {
				panic(fmt.Errorf("contract %s: set %s: sort mismatch", fr.ct.Key, sd.Ghost))
			}
			st.setGlob(sd.Ghost, vc.name(sd.Ghost, t))
		}
	}
	return res, c2
}

func (fr *Frame) doCall0(site ssa.Instruction, c *ssa.CallCommon, fv Val, args []Val, cond T, st *State) (Val, T) {
	vc := fr.x.vc
	rt := resultType(c)
	fresh := func(hint string) Val {
		if rt == nil {
			return nil
		}
		return vc.freshVal(rt, hint)
	}
	if c.IsInvoke() {
		key := invokeKey(c)
		if ct := vc.eng.contractFor(key); ct != nil {
			return fr.callContract(site, ct, key, nil, c.Signature(), args, cond, st, true)
		}
		// devirtualise when the dynamic type is statically evident? not attempted.
		vc.assume("interface call without contract (havoc per static mod-set of implementers): " + key)
		fr.havocForUnknown(key, nil, c, args, st)
		return fresh("inv_" + c.Method.Name()), cond
	}
	if b, ok := fv.(*ssa.Builtin); ok {
		return fr.builtin(site, b, c, args, cond, st), cond
	}
	cv, ok := fv.(*ClosV)
	if !ok {
		// a call through a function-typed struct field may carry an (assumed) contract keyed pkg.Type.field
		if fk := fieldFuncKey(c); fk != "" {
			if ct := vc.eng.contractFor(fk); ct != nil {
				return fr.callContract(site, ct, fk, nil, c.Signature(), args, cond, st, true)
			}
		}
		vc.assume("dynamic call through function value (havoc): " + fr.posOf(site))
		fr.havocAllHeap(st)
		return fresh("dyn"), cond
	}
	fn := cv.Fn
	key := funcKey(fn)
	if r, ok := fr.libModel(key, fn, c, args, cond, st); ok {
		return r, cond
	}
	if ct := vc.eng.contractFor(key); ct != nil && !ct.Inline {
		return fr.callContract(site, ct, key, fn, c.Signature(), args, cond, st, ct.Assumed)
	}
	// inline?
	if fn.Blocks != nil && fr.depth < vc.eng.maxInline && vc.eng.inlinable(fn, len(cv.Binds) > 0) && !fr.inStack(fn) {
		return fr.inline(fn, cv.Binds, args, cond, st)
	}
	// havoc
	if vc.eng.isPureExternal(key, fn) {
		vc.assume("assumed effect-free on tracked state: " + key)
		fr.havocPtrArgs(c, args, st)
		return fresh("r_" + fn.Name()), cond
	}
	vc.assume("call without contract (results unconstrained, static mod-set havocked): " + key)
	fr.havocForUnknown(key, fn, c, args, st)
	// closures passed as arguments may be invoked: havoc what they capture
	fr.havocClosureArgs(args, st)
	return fresh("r_" + fn.Name()), cond
}

func (fr *Frame) inStack(fn *ssa.Function) bool {
	for f := fr; f != nil; f = f.parent {
		if f.fn == fn {
			return true
		}
	}
	return false
}

// inline executes the callee's real SSA body in the caller's state.
func (fr *Frame) inline(fn *ssa.Function, binds []Val, args []Val, cond T, st *State) (Val, T) {
	vc := fr.x.vc
	sub := fr.x.newFrame(fn, fr)
	sub.binds = binds
	sub.params = args
	sub.old = fr.old
	if ct := vc.eng.contractFor(funcKey(fn)); ct != nil {
		sub.ct = ct // loop invariants of inlined functions
		sub.old = st.clone()
	}
	for i, p := range fn.Params {
		if i < len(args) {
			sub.env[p] = args[i]
		}
	}
	work := st.clone()
	sub.runRegion(nil, fn.Blocks[0], cond, work, nil)
	if len(sub.rets) == 0 {
		// callee never returns (panics on all paths)
		return vc.freshVal(orTuple(resultTypeSig(fn.Signature)), "noret"), tFalse
	}
	var incs []inc
	for _, r := range sub.rets {
		incs = append(incs, inc{nil, r.cond, r.st})
	}
	rc, rst := vc.mergeStates(incs)
	// drop callee cells
	for _, c := range sub.cells {
		delete(rst.cells, c)
	}
	// copy back into st
	st.cells = rst.cells
	for k, v := range rst.glob {
		if old, ok := st.glob[k]; !ok || old.S != v.S {
			st.glob[k] = v
			if st.rec != nil {
				st.rec.glob[k] = true
			}
		}
	}
	if st.rec != nil {
		for c := range rst.cells {
			_ = c
		}
	}
	// results
	nres := fn.Signature.Results().Len()
	var res Val
	if nres > 0 {
		outs := make([]Val, nres)
		for i := 0; i < nres; i++ {
			var cs []T
			var vs []Val
			for _, r := range sub.rets {
				cs = append(cs, r.cond)
				vs = append(vs, r.res[i])
			}
			outs[i] = vc.mergeVals(cs, vs, fn.Signature.Results().At(i).Type(), "ret_"+fn.Name())
		}
		if nres == 1 {
			res = outs[0]
		} else {
			res = &TupleV{E: outs}
		}
	}
	return res, rc
}

func resultTypeSig(sig *types.Signature) types.Type {
	switch sig.Results().Len() {
	case 0:
		return nil
	case 1:
		return sig.Results().At(0).Type()
	}
	return sig.Results()
}

func orTuple(t types.Type) types.Type {
	if t == nil {
		return types.NewTuple()
	}
	return t
}

// callContract applies a callee contract at a call site.
func (fr *Frame) callContract(site ssa.Instruction, ct *Contract, key string, fn *ssa.Function, sig *types.Signature, args []Val, cond T, st *State, assumed bool) (Val, T) {
	vc := fr.x.vc
	if assumed {
		vc.assume("assumed contract: " + key)
	}
	seq := fr.siteOrdinal(site, key)
	pre := st.clone()
	pre.rec = nil
	ev := &Eval{vc: vc, st: st, old: pre, names: map[string]tv{}, qv: map[string]tv{}, ctx: "call " + key}
	if fn != nil && fn.Pkg != nil {
		ev.pkg = fn.Pkg.Pkg
	} else {
		ev.pkg = vc.eng.pkgOfKey(key)
	}
	// parameter types: receiver first
	var ptypes []types.Type
	if sig.Recv() != nil {
		ptypes = append(ptypes, sig.Recv().Type())
	} else if len(args) == sig.Params().Len()+1 {
		// invoke: receiver is the interface value
		ptypes = append(ptypes, nil)
	}
	for i := 0; i < sig.Params().Len(); i++ {
		ptypes = append(ptypes, sig.Params().At(i).Type())
	}
	for i, n := range ct.Params {
		if i < len(args) {
			var t types.Type
			if i < len(ptypes) {
				t = ptypes[i]
			}
			if t == nil && fr != nil {
				// interface receiver type
				if c, ok := site.(ssa.CallInstruction); ok && c.Common().IsInvoke() {
					t = c.Common().Value.Type()
				}
			}
			ev.names[n] = tv{args[i], t}
		}
	}
	ev.applyLets(ct)
	for i, rq := range ct.Requires {
		g := ev.evalBool(rq.E)
		if fr.topSynth() {
			// a function verified only for a call-site sweep makes no claim about its callees' preconditions
		} else {
			vc.oblige("pre@"+key, fmt.Sprintf("%d.%d", seq, i), rq.Src, append(append([]string(nil), rq.Tags...), fr.ctTags()...), fr.posOf(site), cond, g)
		}
		// after checking, the precondition may be assumed
		vc.assert(Imp(cond, g))
	}
	for _, df := range ct.Defines {
		vc.assert(Imp(cond, ev.evalBool(df.E)))
		vc.assume("definitional ghost function introduced by contract " + key + ": " + df.Src)
	}
	// havoc frame
	fr.applyModifies(ev, ct, st, pre)
	// results
	var res Val
	nres := sig.Results().Len()
	outs := make([]Val, nres)
	for i := 0; i < nres; i++ {
		outs[i] = vc.freshVal(sig.Results().At(i).Type(), "r_"+sanitize(key))
		name := ""
		if i < len(ct.Results) {
			name = ct.Results[i]
		}
		if name != "" {
			ev.names[name] = tv{outs[i], sig.Results().At(i).Type()}
		}
		if nres == 1 {
			ev.names["result"] = tv{outs[i], sig.Results().At(i).Type()}
		}
		ev.names[fmt.Sprintf("result%d", i)] = tv{outs[i], sig.Results().At(i).Type()}
	}
	if nres == 1 {
		res = outs[0]
	} else if nres > 1 {
		res = &TupleV{E: outs}
	}
	ev.st = st
	for _, en := range ct.Ensures {
		// a postcondition that mentions locals of the callee is meaningful only
		// inside the callee's own proof; callers do not get it
		g, ok := func() (g T, ok bool) {
			defer func() {
				if r := recover(); r != nil {
					if er, isErr := r.(error); isErr && strings.Contains(er.Error(), "unknown identifier") {
						ok = false
						return
					}
					panic(r)
				}
			}()
			return ev.evalBool(en.E), true
		}()
		if ok {
			vc.assert(Imp(cond, g))
		}
	}
	return res, cond
}

func (fr *Frame) ctTags() []string { return nil }

// topSynth: the function being verified has only a synthesised (sweep) contract.
func (fr *Frame) topSynth() bool {
	f := fr
	for f.parent != nil {
		f = f.parent
	}
	return f.ct != nil && f.ct.Synth
}

// siteOrdinal numbers the call sites of one callee statically (source order of
// the SSA blocks), so that contract references like callee#2 are stable and do
// not depend on how often the executor visits a site.
func (fr *Frame) siteOrdinal(site ssa.Instruction, key string) int {
	if fr.siteOrd == nil {
		fr.siteOrd = map[ssa.Instruction]int{}
		counts := map[string]int{}
		for _, b := range fr.fn.Blocks {
			for _, in := range b.Instrs {
				ci, ok := in.(ssa.CallInstruction)
				if !ok {
					continue
				}
				c := ci.Common()
				k := ""
				if c.IsInvoke() {
					k = invokeKey(c)
				} else if callee := c.StaticCallee(); callee != nil {
					k = funcKey(callee)
				} else if fk := fieldFuncKey(c); fk != "" {
					k = fk // call through a function-typed struct field
				} else {
					continue
				}
				counts[k]++
				fr.siteOrd[in] = counts[k]
			}
		}
	}
	if n, ok := fr.siteOrd[site]; ok {
		return n
	}
	fr.callSeq[key]++
	return 1000 + fr.callSeq[key]
}

// applyModifies havocs the locations named in the modifies clauses.
func (fr *Frame) applyModifies(ev *Eval, ct *Contract, st *State, pre *State) {
	vc := fr.x.vc
	for i, m := range ct.Modifies {
		switch n := m.(type) {
		case *EIdent:
			if s, ok := vc.eng.cs.Ghosts[n.Name]; ok {
				st.setGlob(n.Name, vc.fresh(n.Name, s))
				continue
			}
			if n.Name == "$alloc" {
				old := vc.getGlob(st, "$alloc", SInt)
				nv := vc.fresh("alloc", SInt)
				vc.assert(Le(old, nv))
				st.setGlob("$alloc", nv)
				continue
			}
			if n.Name == "$heap" {
				fr.havocAllHeap(st)
				continue
			}
		case *ESel:
			// x.f : single location
			save := ev.st
			ev.st = pre
			base := ev.eval(n.X)
			ev.st = save
			if base.t != nil {
				if pt, ok := base.t.Underlying().(*types.Pointer); ok {
					if s := structOf(pt.Elem()); s != nil {
						for fi := 0; fi < s.NumFields(); fi++ {
							if s.Field(fi).Name() == n.Name {
								ref := vc.asRefStrict(base.v)
								vc.storeField(st, ref, pt.Elem(), fi, vc.freshVal(s.Field(fi).Type(), n.Name))
								goto next
							}
						}
					}
				}
			}
		case *ECall:
			switch n.Fn {
			case "all":
				// all(T.f) or all(T): whole field array(s)
				if len(n.Args) == 1 {
					if sel, ok := n.Args[0].(*ESel); ok {
						if id, ok := sel.X.(*EIdent); ok {
							// pkg.Type (all fields) or Type.field
							if t := vc.eng.resolveType(id.Name + "." + sel.Name); t != nil {
								fr.havocType(st, t)
								goto next
							}
							if t := vc.eng.resolveTypeIn(ev.pkg, id.Name); t != nil {
								if s := structOf(t); s != nil {
									for fi := 0; fi < s.NumFields(); fi++ {
										if s.Field(fi).Name() == sel.Name {
											fr.havocFieldKey(st, t, fi)
											goto next
										}
									}
								}
							}
						}
						// pkg.Type.field
						if sel2, ok := sel.X.(*ESel); ok {
							if id, ok := sel2.X.(*EIdent); ok {
								if t := vc.eng.resolveType(id.Name + "." + sel2.Name); t != nil {
									if s := structOf(t); s != nil {
										for fi := 0; fi < s.NumFields(); fi++ {
											if s.Field(fi).Name() == sel.Name {
												fr.havocFieldKey(st, t, fi)
												goto next
											}
										}
									}
								}
							}
						}
					}
					if id, ok := n.Args[0].(*EIdent); ok {
						if t := vc.eng.resolveTypeIn(ev.pkg, id.Name); t != nil {
							fr.havocType(st, t)
							goto next
						}
					}
				}
			case "elems":
				save := ev.st
				ev.st = pre
				a := ev.eval(n.Args[0])
				ev.st = save
				if sv, ok := a.v.(*SliceV); ok {
					fr.havocElems(st, sv)
					goto next
				}
			case "key":
				// key("Elem_uint8"): a whole tracked state component named by its raw key
				if lit, ok := n.Args[0].(*EStr); ok {
					srt, known := vc.eng.globSorts[lit.V]
					if v, has := st.glob[lit.V]; has {
						srt, known = v.Sort, true
					}
					if known {
						st.setGlob(lit.V, vc.fresh(lit.V, srt))
					}
					goto next
				}
			case "prefix":
				// prefix("H_ltx_"): every tracked state component whose raw key starts with the prefix
				if lit, ok := n.Args[0].(*EStr); ok {
					fr.havocPrefix(lit.V, st)
					goto next
				}
			case "deref":
				// deref(p): the cell or location p points to
				save := ev.st
				ev.st = pre
				a := ev.eval(n.Args[0])
				ev.st = save
				if a.t != nil {
					if pt, ok := a.t.Underlying().(*types.Pointer); ok {
						vc.store(st, a.v, pt.Elem(), vc.freshVal(pt.Elem(), "deref"))
						goto next
					}
				}
			}
		}
		panic(fmt.Errorf("contract %s: unsupported modifies clause %q", ct.Key, ct.ModSrc[i]))
	next:
	}
}

func (fr *Frame) havocFieldKey(st *State, t types.Type, fi int) {
	vc := fr.x.vc
	s := structOf(t)
	ft := types.Unalias(s.Field(fi).Type())
	if structOf(ft) != nil {
		fr.havocType(st, ft)
		return
	}
	key := fieldKey(t, fi)
	if _, ok := ft.Underlying().(*types.Slice); ok {
		for _, part := range sliceParts {
			st.setGlob(key+part, vc.fresh(key, SArrII))
			vc.eng.noteGlobSort(key+part, SArrII)
		}
		return
	}
	if srt, ok := leafSort(ft); ok {
		st.setGlob(key, vc.fresh(key, arrOf(srt)))
		vc.eng.noteGlobSort(key, arrOf(srt))
	}
}

func (fr *Frame) havocType(st *State, t types.Type) {
	s := structOf(t)
	if s == nil {
		return
	}
	for fi := 0; fi < s.NumFields(); fi++ {
		fr.havocFieldKey(st, t, fi)
	}
}

func (fr *Frame) havocElems(st *State, sv *SliceV) {
	vc := fr.x.vc
	et := types.Unalias(sv.Elem)
	if structOf(et) != nil {
		fr.havocType(st, et)
		return
	}
	if s, ok := leafSort(et); ok && (s == SInt || s == SBool || s == SArrII || s == SArrIB) {
		key := elemKey(et)
		a := vc.getGlob(st, key, arrOf(arrOf(s)))
		vc.eng.noteGlobSort(key, arrOf(arrOf(s)))
		st.setGlob(key, Sto(a, sv.Arr, vc.fresh("elems", arrOf(s))))
	}
}

func (fr *Frame) havocAllHeap(st *State) {
	vc := fr.x.vc
	keys := map[string]Sort{}
	for k, v := range st.glob {
		keys[k] = v.Sort
	}
	for k, s := range vc.eng.globSorts {
		if _, ok := keys[k]; !ok {
			keys[k] = s
		}
	}
	for _, k := range sortedKeys(keys) {
		if strings.HasPrefix(k, "$v") {
			continue
		}
		if _, isGhost := vc.eng.cs.Ghosts[k]; isGhost {
			continue // ghost state changes only through contracts
		}
		if k == "$alloc" {
			old := vc.getGlob(st, k, SInt)
			nv := vc.fresh("alloc", SInt)
			vc.assert(Le(old, nv))
			st.setGlob(k, nv)
			continue
		}
		st.setGlob(k, vc.fresh(k, keys[k]))
	}
}

// havocForUnknown forgets what an uncontracted callee may modify.
func (fr *Frame) havocForUnknown(key string, fn *ssa.Function, c *ssa.CallCommon, args []Val, st *State) {
	vc := fr.x.vc
	ms := vc.eng.modSet(fn, c)
	if ms.all {
		fr.havocAllHeap(st)
	} else {
		ks := make([]string, 0, len(ms.keys))
		for k := range ms.keys {
			ks = append(ks, k)
		}
		sort.Strings(ks)
		for _, k := range ks {
			if strings.HasPrefix(k, "$prefix:") {
				fr.havocPrefix(strings.TrimPrefix(k, "$prefix:"), st)
				continue
			}
			srt, ok := vc.eng.globSorts[k]
			if v, has := st.glob[k]; has {
				srt, ok = v.Sort, true
			}
			if !ok {
				continue // never read in this VC
			}
			if _, isGhost := vc.eng.cs.Ghosts[k]; isGhost {
				continue
			}
			st.setGlob(k, vc.fresh(k, srt))
		}
		if ms.alloc {
			old := vc.getGlob(st, "$alloc", SInt)
			nv := vc.fresh("alloc", SInt)
			vc.assert(Le(old, nv))
			st.setGlob("$alloc", nv)
		}
	}
	fr.havocPtrArgs(c, args, st)
}

// havocPtrArgs havocs local cells and slice contents passed by reference.
func (fr *Frame) havocPtrArgs(c *ssa.CallCommon, args []Val, st *State) {
	vc := fr.x.vc
	for _, a := range args {
		switch x := a.(type) {
		case *PtrV:
			switch x.Kind {
			case PCell:
				cv, ok := st.cells[x.Cell]
				if !ok {
					continue
				}
				t := typeAt(x.Cell.Typ, x.Path)
				st.setCell(x.Cell, update(cv, x.Path, vc.freshVal(t, x.Cell.Name)))
			case PField:
				s := structOf(x.ST)
				if isSyncPrimitive(s.Field(x.FI).Type()) {
					continue // mutex / atomic state is not tracked (concurrency is out of scope)
				}
				vc.storeField(st, x.Base, x.ST, x.FI, vc.freshVal(s.Field(x.FI).Type(), "out"))
			case PElem:
				vc.storeElem(st, x.Base, *x.Idx, x.Elem, vc.freshVal(x.Elem, "out"))
			}
		case *SliceV:
			if !vc.eng.isPureName(c) {
				fr.havocElems(st, x)
			}
		}
	}
	// a callee without contract may write through any pointer-to-struct it is handed
	// (directly or boxed in an interface, e.g. json.Decode(&v)): forget that struct type's fields
	if c == nil || vc.eng.isPureName(c) {
		return
	}
	if callee := c.StaticCallee(); callee == nil || vc.eng.inModule(callee) {
		return // in-module callees are covered by the static mod-set analysis
	}
	for _, av := range c.Args {
		t := av.Type()
		if mi, ok := av.(*ssa.MakeInterface); ok {
			t = mi.X.Type()
		}
		if pt, ok := types.Unalias(t).Underlying().(*types.Pointer); ok {
			if structOf(pt.Elem()) != nil && vc.eng.moduleType(pt.Elem()) {
				fr.havocType(st, pt.Elem())
			}
		}
	}
}

func isSyncPrimitive(t types.Type) bool {
	n, ok := types.Unalias(t).(*types.Named)
	if !ok || n.Obj().Pkg() == nil {
		return false
	}
	p := n.Obj().Pkg().Path()
	return p == "sync" || p == "sync/atomic" || strings.HasSuffix(p, "x/sync/semaphore")
}

func (fr *Frame) havocClosureArgs(args []Val, st *State) {
	for _, a := range args {
		if cv, ok := a.(*ClosV); ok {
			fr.havocClosure(cv, st)
		}
	}
}

// havocPrefix havocs every heap key with the given prefix that this VC can observe.
func (fr *Frame) havocPrefix(prefix string, st *State) {
	vc := fr.x.vc
	seen := map[string]Sort{}
	for k, s := range vc.eng.globSorts {
		if strings.HasPrefix(k, prefix) {
			seen[k] = s
		}
	}
	for k, v := range st.glob {
		if strings.HasPrefix(k, prefix) {
			seen[k] = v.Sort
		}
	}
	for _, k := range sortedKeys(seen) {
		if _, isGhost := vc.eng.cs.Ghosts[k]; isGhost {
			continue
		}
		st.setGlob(k, vc.fresh(k, seen[k]))
	}
}

func (fr *Frame) havocClosure(cv *ClosV, st *State) {
	vc := fr.x.vc
	for bi, b := range cv.Binds {
		if p, ok := b.(*PtrV); ok && p.Kind == PCell {
			if bi < len(cv.Fn.FreeVars) && freeVarOnlyRead(cv.Fn.FreeVars[bi]) {
				continue // the closure only reads this captured variable
			}
			if old, ok := st.cells[p.Cell]; ok {
				if _, isClos := old.(*ClosV); isClos {
					continue
				}
				st.setCell(p.Cell, vc.freshVal(p.Cell.Typ, p.Cell.Name))
			}
		}
	}
	ms := vc.eng.modSet(cv.Fn, nil)
	if ms.all {
		fr.havocAllHeap(st)
		return
	}
	for _, k := range sortedKeys(ms.keys) {
		srt, ok := vc.eng.globSorts[k]
		if v, has := st.glob[k]; has {
			srt, ok = v.Sort, true
		}
		if !ok {
			continue // never read in this VC
		}
		if _, isGhost := vc.eng.cs.Ghosts[k]; isGhost {
			continue
		}
		st.setGlob(k, vc.fresh(k, srt))
	}
	if ms.alloc {
		old := vc.getGlob(st, "$alloc", SInt)
		nv := vc.fresh("alloc", SInt)
		vc.assert(Le(old, nv))
		st.setGlob("$alloc", nv)
	}
}

// freeVarOnlyRead reports whether a captured variable is only loaded in the closure body
// (never stored to, never handed on by address).
func freeVarOnlyRead(fv *ssa.FreeVar) bool {
	refs := fv.Referrers()
	if refs == nil {
		return false
	}
	for _, r := range *refs {
		switch u := r.(type) {
		case *ssa.DebugRef:
		case *ssa.UnOp:
			if u.Op != token.MUL {
				return false
			}
		default:
			return false
		}
	}
	return true
}

func (fr *Frame) havocClosureCaptures(c *ssa.CallCommon, st *State) {
	if c.IsInvoke() {
		return
	}
	if cv, ok := fr.val(c.Value).(*ClosV); ok {
		fr.havocClosure(cv, st)
	}
	for _, a := range c.Args {
		if cv, ok := fr.val(a).(*ClosV); ok {
			fr.havocClosure(cv, st)
		}
	}
}

// blockReaches reports whether block b is reachable from block a (a == b counts).
func (fr *Frame) blockReaches(a, b *ssa.BasicBlock) bool {
	if fr.reach == nil {
		fr.reach = map[*ssa.BasicBlock]map[*ssa.BasicBlock]bool{}
	}
	m, ok := fr.reach[a]
	if !ok {
		m = map[*ssa.BasicBlock]bool{}
		stack := []*ssa.BasicBlock{a}
		for len(stack) > 0 {
			n := stack[len(stack)-1]
			stack = stack[:len(stack)-1]
			if m[n] {
				continue
			}
			m[n] = true
			stack = append(stack, n.Succs...)
		}
		fr.reach[a] = m
	}
	return m[b]
}

// runDefers executes armed deferred calls in reverse order.
func (fr *Frame) runDefers(cond T, st *State) T {
	vc := fr.x.vc
	for i := len(fr.defers) - 1; i >= 0; i-- {
		d := fr.defers[i]
		// a defer whose registration site cannot reach this block is never armed here
		if fr.curBlock != nil && d.site != nil && d.site.Block() != nil && d.site.Parent() == fr.fn && !fr.blockReaches(d.site.Block(), fr.curBlock) {
			continue
		}
		// is this defer armed on the current path? armed ∧ cond
		armed := vc.name("armed", And(cond, d.armed))
		if armed.S == "false" {
			continue
		}
		// execute on a copy, then merge with the unarmed continuation
		work := st.clone()
		_, c2 := fr.doCall(d.site, d.call, d.fnVal, d.args, armed, work)
		_ = c2
		notArmed := vc.name("narmed", And(cond, Not(d.armed)))
		if d.armed.S == cond.S || notArmed.S == "false" {
			*st = *work
			continue
		}
		_, merged := vc.mergeStates([]inc{{nil, armed, work}, {nil, notArmed, st.clone()}})
		rec := st.rec
		*st = *merged
		st.rec = rec
		if rec != nil {
			for c := range work.cells {
				if !valEqual(work.cells[c], merged.cells[c]) {
					rec.cells[c] = true
				}
			}
		}
	}
	return cond
}
