package main

import (
	"flag"
	"fmt"
	"go/token"
	"os"
	"runtime"
	"sort"
	"strings"
	"time"
)

func (e *Engine) posString(p token.Pos) string {
	if !p.IsValid() {
		return ""
	}
	ps := e.fset.Position(p)
	return fmt.Sprintf("%s:%d", ps.Filename, ps.Line)
}

func main() {
	if len(os.Args) < 2 {
		fmt.Fprintln(os.Stderr, "usage: gvc verify|check|dump ...")
		os.Exit(2)
	}
	switch os.Args[1] {
	case "verify":
		cmdVerify(os.Args[2:])
	case "check":
		cmdCheck(os.Args[2:])
	case "ssa":
		cmdSSA(os.Args[2:])
	default:
		fmt.Fprintln(os.Stderr, "unknown command", os.Args[1])
		os.Exit(2)
	}
}

var defaultPatterns = []string{".", "./internal", "./file", "./s3"}

func cmdSSA(args []string) {
	fs := flag.NewFlagSet("ssa", flag.ExitOnError)
	repo := fs.String("repo", "/repo", "repository")
	tags := fs.String("tags", "verif", "build tags")
	fs.Parse(args)
	e := newEngine(*repo)
	if err := e.load(defaultPatterns, *tags, nil); err != nil {
		fmt.Fprintln(os.Stderr, "ERROR", err)
		os.Exit(2)
	}
	for _, k := range fs.Args() {
		fn := e.lookupFunc(k)
		if fn == nil {
			fmt.Println("not found:", k)
			var cands []string
			for kk := range e.funcs {
				if strings.Contains(kk, k) {
					cands = append(cands, kk)
				}
			}
			sort.Strings(cands)
			for _, c := range cands {
				fmt.Println("  candidate:", c)
			}
			continue
		}
		fn.WriteTo(os.Stdout)
		li := e.loopsOf(fn)
		for i, h := range li.headers {
			fmt.Printf("# loop %d: header block %d (%s) at %s\n", i, h.Index, h.Comment, e.posString(headerPos(h)))
		}
	}
}

func cmdVerify(args []string) {
	fs := flag.NewFlagSet("verify", flag.ExitOnError)
	repo := fs.String("repo", "/repo", "repository")
	tags := fs.String("tags", "verif", "build tags")
	specs := fs.String("specs", "/verif/specs", "spec dir")
	timeout := fs.Int("timeout", 10, "per-obligation timeout (s)")
	dump := fs.String("dump", "", "directory to keep SMT files")
	verbose := fs.Bool("v", false, "verbose")
	extra := fs.String("contracts", "", "extra contract files (comma separated)")
	pkgsFlag := fs.String("pkgs", "", "package patterns (comma separated; default litestream set)")
	fs.Parse(args)
	patterns := defaultPatterns
	if *pkgsFlag != "" {
		patterns = strings.Split(*pkgsFlag, ",")
	}
	t0 := time.Now()
	e := newEngine(*repo)
	if err := e.loadSpecDir(*specs); err != nil {
		fmt.Fprintln(os.Stderr, "ERROR", err)
		os.Exit(2)
	}
	for _, f := range strings.Split(*extra, ",") {
		if f != "" {
			if err := e.cs.loadFile(f); err != nil {
				fmt.Fprintln(os.Stderr, "ERROR", err)
				os.Exit(2)
			}
		}
	}
	if err := e.load(patterns, *tags, nil); err != nil {
		fmt.Fprintln(os.Stderr, "ERROR", err)
		os.Exit(2)
	}
	fmt.Printf("loaded in %.1fs\n", time.Since(t0).Seconds())
	dir := *dump
	if dir == "" {
		d, _ := os.MkdirTemp("", "gvc")
		dir = d
		defer os.RemoveAll(d)
	} else {
		os.MkdirAll(dir, 0o755)
	}
	fail := 0
	for _, k := range fs.Args() {
		r := e.verifyFunc(k)
		if r.Err != nil {
			fmt.Println("ERROR", k, r.Err)
			fail++
			continue
		}
		e.solveAll(r.Obligs, dir, *timeout, runtime.NumCPU())
		for _, w := range r.Warns {
			fmt.Println("  warn:", w)
		}
		if *verbose {
			for _, a := range r.Assumed {
				fmt.Println("  assumed:", a)
			}
		}
		for _, o := range r.Obligs {
			status := "ok  "
			if !o.ok() {
				status = "FAIL"
				fail++
			}
			if *verbose || !o.ok() {
				fmt.Printf("  %s %-70s %-8s %-8s %.2fs  %s\n", status, o.ID, o.Result, o.Solver, o.TimeS, o.Clause)
			}
		}
		fmt.Printf("%s: %d obligations\n", k, len(r.Obligs))
	}
	fmt.Printf("done in %.1fs, %d failures\n", time.Since(t0).Seconds(), fail)
	if fail > 0 {
		os.Exit(1)
	}
}

func cmdCheck(args []string) {
	runCheck(args)
}
