module toy

go 1.23
