package toy

type node struct {
	id   int
	next *node
}

func build(n int) []*node {
	out := make([]*node, 0, 9)
	for i := 0; i < n; i++ {
		out = append(out, &node{id: i})
	}
	return out
}

func sum(xs []int) int {
	s := 0
	for _, x := range xs {
		s += x
	}
	return s
}

func maxIdx(xs []int) int {
	best := 0
	for i := 1; i < len(xs); i++ {
		if xs[i] > xs[best] {
			best = i
		}
	}
	return best
}
