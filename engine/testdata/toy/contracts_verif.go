//go:build verif

package toy

/*@
func toy.build(n) (out)
  requires 0 <= n && n <= 9
  modifies $alloc
  ensures len(out) == n
  ensures forall j int :: {out[j]} 0 <= j && j < n ==> out[j] != nil && out[j].id == j
  ensures forall i int, j int :: {out[i], out[j]} 0 <= i && i < j && j < n ==> out[i] != out[j]
  loop 0 invariant 0 <= i && i <= n && len(out) == i && cap(out) == 9 && fresh(arr(out))
  loop 0 invariant forall j int :: {out[j]} 0 <= j && j < i ==> out[j] != nil && fresh(out[j]) && out[j].id == j
  loop 0 invariant forall a int, b int :: {out[a], out[b]} 0 <= a && a < b && b < i ==> out[a] != out[b]

func toy.maxIdx(xs) (r)
  requires len(xs) > 0
  bounds
  ensures 0 <= r && r < len(xs)
  ensures forall k int :: {xs[k]} 0 <= k && k < len(xs) ==> xs[k] <= xs[r]
  loop 0 invariant 1 <= i && i <= len(xs) && 0 <= best && best < i
  loop 0 invariant forall k int :: {xs[k]} 0 <= k && k < i ==> xs[k] <= xs[best]
  loop 0 decreases len(xs) - i
*/
