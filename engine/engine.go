package main

import (
	"fmt"
	"go/token"
	"go/types"
	"os"
	"path/filepath"
	"sort"
	"strings"
	"sync"

	"golang.org/x/tools/go/packages"
	"golang.org/x/tools/go/ssa"
	"golang.org/x/tools/go/ssa/ssautil"
)

type Engine struct {
	fset      *token.FileSet
	prog      *ssa.Program
	pkgs      []*packages.Package
	spkgs     map[string]*ssa.Package // by path
	byName    map[string]*types.Package
	cs        *ContractSet
	globSorts map[string]Sort
	strIDs    map[string]int
	strList   []string
	typeIDs   map[string]int
	addrKinds map[string]int
	loopCache map[*ssa.Function]*loopInfo
	modCache  map[*ssa.Function]*modSet
	funcs     map[string]*ssa.Function
	needTdiv  bool
	needRd    map[string]bool
	maxInline int
	mu        sync.Mutex
	repo      string
	floatIDs  map[string]string
	preludeDefs map[string]bool
	useGlobals  bool
}

// sweepFunctions lists every function of the given packages (by package name) that
// contains a call to one of the callees (contract keys), closures included.
func (e *Engine) sweepFunctions(pkgNames, callees []string) []string {
	e.lookupFunc("")
	want := map[string]bool{}
	for _, c := range callees {
		want[c] = true
	}
	inPkg := func(fn *ssa.Function) bool {
		for f := fn; f != nil; f = f.Parent() {
			if f.Pkg != nil {
				for _, p := range pkgNames {
					if f.Pkg.Pkg.Name() == p && e.inModule(f) {
						return true
					}
				}
				return false
			}
		}
		return false
	}
	var out []string
	for key, fn := range e.funcs {
		if fn.Blocks == nil || !inPkg(fn) {
			continue
		}
		hit := false
		for _, b := range fn.Blocks {
			for _, in := range b.Instrs {
				ci, ok := in.(ssa.CallInstruction)
				if !ok {
					continue
				}
				c := ci.Common()
				k := ""
				if c.IsInvoke() {
					k = invokeKey(c)
				} else if callee := c.StaticCallee(); callee != nil {
					k = funcKey(callee)
				}
				if want[k] {
					hit = true
				}
			}
		}
		if hit {
			out = append(out, key)
		}
	}
	sort.Strings(out)
	return out
}

// synthContract gives a function without contract the weakest one (arbitrary effects),
// so that global call-site clauses can be checked inside it.
func (e *Engine) synthContract(key string) {
	if _, ok := e.cs.Contracts[key]; ok {
		return
	}
	fn := e.lookupFunc(key)
	c := &Contract{Key: key, Loops: map[int]*LoopContract{}, CallAsserts: map[string][]*Clause{}, Note: "synthesised for a call-site sweep", Synth: true}
	if fn != nil {
		for _, p := range fn.Params {
			c.Params = append(c.Params, p.Name())
		}
	}
	c.Modifies = []Expr{&EIdent{"$heap"}}
	c.ModSrc = []string{"$heap"}
	e.cs.Contracts[key] = c
}

func newEngine(repo string) *Engine {
	return &Engine{globSorts: map[string]Sort{}, strIDs: map[string]int{}, typeIDs: map[string]int{}, addrKinds: map[string]int{},
		loopCache: map[*ssa.Function]*loopInfo{}, modCache: map[*ssa.Function]*modSet{}, funcs: map[string]*ssa.Function{},
		needRd: map[string]bool{}, maxInline: 4, repo: repo, spkgs: map[string]*ssa.Package{}, byName: map[string]*types.Package{},
		floatIDs: map[string]string{}, cs: newContractSet()}
}

func (e *Engine) noteGlobSort(k string, s Sort) { e.globSorts[k] = s }

// noteElemSort records the sort of the element-array key of a slice element type.
func (e *Engine) noteElemSort(et types.Type) {
	if ls, ok := leafSort(et); ok && (ls == SInt || ls == SBool || ls == SArrII || ls == SArrIB) && structOf(et) == nil {
		e.globSorts[elemKey(et)] = arrOf(arrOf(ls))
	}
}

// definedInPrelude reports whether the SMT prelude (built-ins and smt{} blocks of
// the contract files) already declares or defines the function.
func (e *Engine) definedInPrelude(name string) bool {
	if e.preludeDefs == nil {
		e.preludeDefs = map[string]bool{}
		p := e.prelude()
		for _, kw := range []string{"(define-fun ", "(declare-fun ", "(define-fun-rec "} {
			rest := p
			for {
				i := strings.Index(rest, kw)
				if i < 0 {
					break
				}
				rest = rest[i+len(kw):]
				j := strings.IndexAny(rest, " \n\t(")
				if j > 0 {
					e.preludeDefs[rest[:j]] = true
				}
			}
		}
	}
	return e.preludeDefs[name]
}

func (e *Engine) strID(s string) int {
	if id, ok := e.strIDs[s]; ok {
		return id
	}
	id := 1000 + len(e.strIDs)
	e.strIDs[s] = id
	e.strList = append(e.strList, s)
	return id
}

func (e *Engine) floatConst(s string) string {
	if n, ok := e.floatIDs[s]; ok {
		return n
	}
	n := fmt.Sprintf("float_%d", len(e.floatIDs))
	e.floatIDs[s] = n
	return n
}

func (e *Engine) typeID(t types.Type) int {
	k := types.TypeString(types.Unalias(t), nil)
	if id, ok := e.typeIDs[k]; ok {
		return id
	}
	id := 1 + len(e.typeIDs)
	e.typeIDs[k] = id
	return id
}

func (e *Engine) addrKind(fn string) int {
	if id, ok := e.addrKinds[fn]; ok {
		return id
	}
	id := 1 + len(e.addrKinds)
	e.addrKinds[fn] = id
	return id
}

func (e *Engine) loopsOf(fn *ssa.Function) *loopInfo {
	if li, ok := e.loopCache[fn]; ok {
		return li
	}
	li := analyzeLoops(fn)
	e.loopCache[fn] = li
	return li
}

// load type-checks the repository packages from the working tree and builds SSA.
func (e *Engine) load(patterns []string, tags string, overlay map[string][]byte) error {
	cfg := &packages.Config{Mode: packages.LoadAllSyntax, Dir: e.repo, Overlay: overlay}
	if tags != "" {
		cfg.BuildFlags = []string{"-tags=" + tags}
	}
	cfg.Env = append(os.Environ(), "GOFLAGS=-mod=mod", "GOPROXY=off")
	pkgs, err := packages.Load(cfg, patterns...)
	if err != nil {
		return err
	}
	var errs []string
	for _, p := range pkgs {
		for _, pe := range p.Errors {
			errs = append(errs, pe.Error())
		}
	}
	if len(errs) > 0 {
		return fmt.Errorf("load errors:\n%s", strings.Join(errs, "\n"))
	}
	e.pkgs = pkgs
	prog, _ := ssautil.AllPackages(pkgs, ssa.NaiveForm|ssa.GlobalDebug)
	e.prog = prog
	e.fset = prog.Fset
	for _, sp := range prog.AllPackages() {
		e.spkgs[sp.Pkg.Path()] = sp
		if _, dup := e.byName[sp.Pkg.Name()]; !dup || strings.Contains(sp.Pkg.Path(), "litestream") || strings.Contains(sp.Pkg.Path(), "superfly/ltx") || sp.Pkg.Path() == sp.Pkg.Name() {
			e.byName[sp.Pkg.Name()] = sp.Pkg
		}
	}
	// build only what we need lazily: Build() is per package
	for _, p := range pkgs {
		if sp := prog.Package(p.Types); sp != nil {
			sp.Build()
		}
	}
	for _, sp := range prog.AllPackages() {
		if strings.HasPrefix(sp.Pkg.Path(), "github.com/superfly/ltx") || strings.HasPrefix(sp.Pkg.Path(), "github.com/benbjohnson/litestream") {
			sp.Build()
		}
	}
	// contracts: comment-only files in the repository (guarded by the verif tag)
	var cfiles []string
	for _, p := range pkgs {
		for _, f := range p.GoFiles {
			if strings.HasSuffix(f, "contracts_verif.go") {
				cfiles = append(cfiles, f)
			}
		}
		for _, f := range p.IgnoredFiles {
			if strings.HasSuffix(f, "contracts_verif.go") {
				cfiles = append(cfiles, f)
			}
		}
	}
	sort.Strings(cfiles)
	for _, f := range cfiles {
		if b, ok := overlay[f]; ok {
			tmp, _ := os.CreateTemp("", "ct*.go")
			tmp.Write(b)
			tmp.Close()
			err := e.cs.loadFile(tmp.Name())
			os.Remove(tmp.Name())
			if err != nil {
				return err
			}
			continue
		}
		if err := e.cs.loadFile(f); err != nil {
			return err
		}
	}
	return nil
}

func (e *Engine) loadSpecDir(dir string) error {
	ms, _ := filepath.Glob(filepath.Join(dir, "*.contracts"))
	sort.Strings(ms)
	for _, f := range ms {
		if err := e.cs.loadFile(f); err != nil {
			return err
		}
	}
	return nil
}

func (e *Engine) buildPkgOf(fn *ssa.Function) {
	if fn.Pkg != nil {
		fn.Pkg.Build()
	}
}

func (e *Engine) pkgByName(name string) *types.Package { return e.byName[name] }

func (e *Engine) allPkgs() []*types.Package {
	var out []*types.Package
	for _, n := range sortedKeys(e.byName) {
		out = append(out, e.byName[n])
	}
	return out
}

func (e *Engine) pkgOfKey(key string) *types.Package {
	if i := strings.Index(key, "."); i > 0 {
		return e.byName[key[:i]]
	}
	return nil
}

// resolveType resolves "pkg.Name", "*pkg.Name", "int", ...
func (e *Engine) resolveType(s string) types.Type {
	s = strings.TrimSpace(s)
	if strings.HasPrefix(s, "*") {
		t := e.resolveType(s[1:])
		if t == nil {
			return nil
		}
		return types.NewPointer(t)
	}
	if strings.HasPrefix(s, "map[") {
		depth := 0
		for i := 3; i < len(s); i++ {
			if s[i] == '[' {
				depth++
			} else if s[i] == ']' {
				depth--
				if depth == 0 {
					k, v := e.resolveType(s[4:i]), e.resolveType(s[i+1:])
					if k == nil || v == nil {
						return nil
					}
					return types.NewMap(k, v)
				}
			}
		}
		return nil
	}
	if strings.HasPrefix(s, "[]") {
		t := e.resolveType(s[2:])
		if t == nil {
			return nil
		}
		return types.NewSlice(t)
	}
	if i := strings.Index(s, "."); i > 0 {
		p := e.byName[s[:i]]
		if p == nil {
			return nil
		}
		obj := p.Scope().Lookup(s[i+1:])
		if tn, ok := obj.(*types.TypeName); ok {
			return tn.Type()
		}
		return nil
	}
	if obj := types.Universe.Lookup(s); obj != nil {
		if tn, ok := obj.(*types.TypeName); ok {
			return tn.Type()
		}
	}
	return nil
}

func (e *Engine) resolveTypeIn(p *types.Package, name string) types.Type {
	if p != nil {
		if tn, ok := p.Scope().Lookup(name).(*types.TypeName); ok {
			return tn.Type()
		}
	}
	return e.resolveType(name)
}

func (e *Engine) contractFor(key string) *Contract {
	if c, ok := e.cs.Contracts[key]; ok {
		return c
	}
	// instantiations of generic functions share the contract of the generic: slices.Sort[[]uint32,uint32] -> slices.Sort
	if i := strings.Index(key, "["); i > 0 {
		return e.cs.Contracts[key[:i]]
	}
	return nil
}

// lookupFunc finds an SSA function by contract key.
func (e *Engine) lookupFunc(key string) *ssa.Function {
	if fn, ok := e.funcs[key]; ok {
		return fn
	}
	if len(e.funcs) == 0 {
		for fn := range ssautil.AllFunctions(e.prog) {
			if fn.Synthetic != "" && !strings.Contains(fn.Synthetic, "instance") {
				continue
			}
			k := funcKey(fn)
			if old, dup := e.funcs[k]; dup {
				// prefer the one from a litestream package
				if old.Pkg != nil && strings.Contains(old.Pkg.Pkg.Path(), "litestream") {
					continue
				}
			}
			e.funcs[k] = fn
		}
	}
	return e.funcs[key]
}

// ---------------------------------------------------------------------------
// Static mod-set analysis (for callees without contract)

type modSet struct {
	keys  map[string]bool
	all   bool
	alloc bool
}

func (e *Engine) inModule(fn *ssa.Function) bool {
	if fn == nil {
		return false
	}
	p := fn.Pkg
	if p == nil && fn.Parent() != nil {
		return e.inModule(fn.Parent())
	}
	if p == nil {
		return false
	}
	path := p.Pkg.Path()
	return strings.HasPrefix(path, "github.com/benbjohnson/litestream") || strings.HasPrefix(path, "github.com/superfly/ltx")
}

func (e *Engine) modSet(fn *ssa.Function, c *ssa.CallCommon) *modSet {
	if fn == nil {
		// interface invoke: union over module methods with that name
		ms := &modSet{keys: map[string]bool{}}
		if c == nil || !c.IsInvoke() {
			ms.all = true
			return ms
		}
		name := c.Method.Name()
		e.lookupFunc("")
		found := false
		for _, f := range e.funcs {
			if f.Name() == name && f.Signature.Recv() != nil && e.inModule(f) {
				if types.Implements(f.Signature.Recv().Type(), c.Value.Type().Underlying().(*types.Interface)) {
					found = true
					sub := e.modSet(f, nil)
					if sub.all {
						ms.all = true
					}
					ms.alloc = ms.alloc || sub.alloc
					for k := range sub.keys {
						ms.keys[k] = true
					}
				}
			}
		}
		_ = found
		return ms
	}
	if ms, ok := e.modCache[fn]; ok {
		return ms
	}
	ms := &modSet{keys: map[string]bool{}}
	e.modCache[fn] = ms // cycle cut (fixpoint below)
	if !e.inModule(fn) || fn.Blocks == nil {
		return ms // external: pointer args handled at call site
	}
	for iter := 0; iter < 3; iter++ {
		before := len(ms.keys)
		e.modScan(fn, ms, map[*ssa.Function]bool{})
		if len(ms.keys) == before && iter > 0 {
			break
		}
	}
	return ms
}

func (e *Engine) modScan(fn *ssa.Function, ms *modSet, seen map[*ssa.Function]bool) {
	if seen[fn] || ms.all {
		return
	}
	seen[fn] = true
	addField := func(st types.Type, fi int) {
		s := structOf(st)
		if s == nil {
			return
		}
		var rec func(t types.Type, fi int)
		rec = func(t types.Type, fi int) {
			s := structOf(t)
			ft := types.Unalias(s.Field(fi).Type())
			if s2 := structOf(ft); s2 != nil {
				for j := 0; j < s2.NumFields(); j++ {
					rec(ft, j)
				}
				return
			}
			k := fieldKey(t, fi)
			if _, ok := ft.Underlying().(*types.Slice); ok {
				for _, p := range sliceParts {
					ms.keys[k+p] = true
					e.globSorts[k+p] = SArrII
				}
				return
			}
			ms.keys[k] = true
			if ls, ok := leafSort(ft); ok {
				e.globSorts[k] = arrOf(ls)
			}
		}
		rec(st, fi)
	}
	for _, b := range fn.Blocks {
		for _, in := range b.Instrs {
			switch i := in.(type) {
			case *ssa.Store:
				switch a := i.Addr.(type) {
				case *ssa.FieldAddr:
					addField(a.X.Type().Underlying().(*types.Pointer).Elem(), a.Field)
				case *ssa.IndexAddr:
					if sl, ok := a.X.Type().Underlying().(*types.Slice); ok {
						et := types.Unalias(sl.Elem())
						if s := structOf(et); s != nil {
							for j := 0; j < s.NumFields(); j++ {
								addField(et, j)
							}
						} else {
							ms.keys[elemKey(et)] = true
							e.noteElemSort(et)
						}
					}
				case *ssa.Global:
					ms.keys["G_"+sanitize(a.Pkg.Pkg.Name()+"_"+a.Name())] = true
				case *ssa.Alloc:
				default:
					// store through a computed pointer: type-based
					et := types.Unalias(i.Addr.Type().Underlying().(*types.Pointer).Elem())
					if s := structOf(et); s != nil {
						for j := 0; j < s.NumFields(); j++ {
							addField(et, j)
						}
					} else {
						ms.keys["Mem_"+typeKey(et)] = true
					}
				}
			case *ssa.MapUpdate:
				d, v, _, _ := mapKeys(i.Map.Type())
				ms.keys[d] = true
				if v != "" {
					ms.keys[v] = true
				}
			case *ssa.Alloc, *ssa.MakeSlice, *ssa.MakeMap:
				ms.alloc = true
			case ssa.CallInstruction:
				c := i.Common()
				if c.IsInvoke() {
					key := invokeKey(c)
					if ct := e.contractFor(key); ct != nil {
						e.modFromContract(ct, ms)
						continue
					}
					sub := e.modSet(nil, c)
					if sub.all {
						ms.all = true
					}
					for k := range sub.keys {
						ms.keys[k] = true
					}
					continue
				}
				if bi, ok := c.Value.(*ssa.Builtin); ok {
					switch bi.Name() {
					case "append", "copy":
						if len(c.Args) > 0 {
							if sl, ok := c.Args[0].Type().Underlying().(*types.Slice); ok {
								et := types.Unalias(sl.Elem())
								if s := structOf(et); s != nil {
									for j := 0; j < s.NumFields(); j++ {
										addField(et, j)
									}
								} else {
									ms.keys[elemKey(et)] = true
							e.noteElemSort(et)
								}
							}
						}
						ms.alloc = true
					case "delete":
						d, _, _, _ := mapKeys(c.Args[0].Type())
						ms.keys[d] = true
					}
					continue
				}
				callee := c.StaticCallee()
				if callee == nil {
					if mc, ok := c.Value.(*ssa.MakeClosure); ok {
						callee = mc.Fn.(*ssa.Function)
					}
				}
				if callee == nil {
					// call through function value: assume it may do anything in-module code does to tracked fields
					ms.all = true
					return
				}
				if ct := e.contractFor(funcKey(callee)); ct != nil && !ct.Inline {
					e.modFromContract(ct, ms)
					continue
				}
				if !e.inModule(callee) {
					// external: may write through pointer-to-struct args of module types
					for _, a := range c.Args {
						if pt, ok := a.Type().Underlying().(*types.Pointer); ok {
							if s := structOf(pt.Elem()); s != nil && e.moduleType(pt.Elem()) {
								for j := 0; j < s.NumFields(); j++ {
									addField(pt.Elem(), j)
								}
							}
						}
						if sl, ok := a.Type().Underlying().(*types.Slice); ok {
							et := types.Unalias(sl.Elem())
							if structOf(et) == nil {
								ms.keys[elemKey(et)] = true
							e.noteElemSort(et)
							}
						}
					}
					continue
				}
				e.modScan(callee, ms, seen)
			}
		}
	}
	for _, an := range fn.AnonFuncs {
		e.modScan(an, ms, seen)
	}
}

func (e *Engine) moduleType(t types.Type) bool {
	n, ok := types.Unalias(t).(*types.Named)
	if !ok || n.Obj().Pkg() == nil {
		return false
	}
	p := n.Obj().Pkg().Path()
	return strings.HasPrefix(p, "github.com/benbjohnson/litestream") || strings.HasPrefix(p, "github.com/superfly/ltx")
}

func (e *Engine) modFromContract(ct *Contract, ms *modSet) {
	for _, m := range ct.Modifies {
		switch n := m.(type) {
		case *EIdent:
			if n.Name == "$heap" {
				ms.all = true
			}
			if n.Name == "$alloc" {
				ms.alloc = true
			}
			ms.keys[n.Name] = true
		default:
			// location-precise clauses: conservatively resolved by field name over all module struct types
			name := ""
			if s, ok := m.(*ESel); ok {
				name = s.Name
			}
			if c, ok := m.(*ECall); ok && len(c.Args) == 1 {
				if s, ok := c.Args[0].(*ESel); ok {
					name = s.Name
				}
				if c.Fn == "elems" {
					ms.keys["$elems"] = true
				}
				if lit, ok := c.Args[0].(*EStr); ok && c.Fn == "key" {
					ms.keys[lit.V] = true
				}
				if lit, ok := c.Args[0].(*EStr); ok && c.Fn == "prefix" {
					ms.keys["$prefix:"+lit.V] = true
				}
			}
			if name != "" {
				ms.keys["$field:"+name] = true
			}
		}
	}
}

// inlinable: loop-free small functions of the module (or closures).
func (e *Engine) inlinable(fn *ssa.Function, isClosure bool) bool {
	if fn.Blocks == nil {
		return false
	}
	if ct := e.contractFor(funcKey(fn)); ct != nil && ct.Inline {
		return true
	}
	if !e.inModule(fn) {
		return false
	}
	li := e.loopsOf(fn)
	if len(li.headers) > 0 {
		return false
	}
	n := 0
	for _, b := range fn.Blocks {
		n += len(b.Instrs)
	}
	limit := 120
	if isClosure || fn.Parent() != nil {
		limit = 600
	}
	return n <= limit
}

var pureExternal = map[string]bool{}

var purePkgs = []string{"fmt.", "slog.", "log.", "errors.", "strings.", "strconv.", "filepath.", "path.", "time.", "prometheus.", "context.", "math.", "sort.Search", "bytes.Equal", "hex.", "unicode.", "utf8.", "atomic.", "sync.", "runtime.", "reflect.", "url.", "regexp.", "humanize.", "bits.", "crc64.", "crc32.", "rand.", "json.Marshal", "bytes.NewReader", "bytes.NewBuffer"}

func (e *Engine) isPureExternal(key string, fn *ssa.Function) bool {
	if e.inModule(fn) {
		return false
	}
	for _, p := range purePkgs {
		if strings.HasPrefix(key, p) {
			return true
		}
	}
	return false
}

func (e *Engine) isPureName(c *ssa.CallCommon) bool {
	if c == nil || c.IsInvoke() {
		return false
	}
	callee := c.StaticCallee()
	if callee == nil {
		return false
	}
	k := funcKey(callee)
	for _, p := range purePkgs {
		if strings.HasPrefix(k, p) {
			return true
		}
	}
	return false
}
