package main

import (
	"context"
	"fmt"
	"go/types"
	"os"
	"os/exec"
	"path/filepath"
	"runtime"
	"sort"
	"strconv"
	"strings"
	"sync"
	"syscall"
	"time"

	"golang.org/x/tools/go/ssa"
)

type FuncResult struct {
	Key     string
	VC      *VC
	Err     error
	Obligs  []*Oblig
	Warns   []string
	Assumed []string
}

// verifyFunc generates all obligations of one function under contract.
func (e *Engine) verifyFunc(key string) (res *FuncResult) {
	res = &FuncResult{Key: key}
	defer func() {
		if r := recover(); r != nil {
			if er, ok := r.(error); ok {
				res.Err = er
				return
			}
			if ee, ok := r.(evalErr); ok {
				res.Err = fmt.Errorf("contract evaluation error in %s: %s", key, ee.msg)
				return
			}
			panic(r)
		}
	}()
	fn := e.lookupFunc(key)
	if fn == nil {
		res.Err = fmt.Errorf("function %s not found in /repo (renamed or removed?)", key)
		return
	}
	ct := e.contractFor(key)
	if ct == nil {
		res.Err = fmt.Errorf("no contract for %s", key)
		return
	}
	if fn.Blocks == nil {
		res.Err = fmt.Errorf("function %s has no body", key)
		return
	}
	vc := newVC(e, key)
	res.VC = vc
	x := &Exec{vc: vc, eng: e}
	fr := x.newFrame(fn, nil)
	fr.top = true
	fr.ct = ct
	st := newState()
	al0 := vc.getGlob(st, "$alloc", SInt)
	vc.assert(Le(I(0), al0))
	for _, p := range fn.Params {
		v := vc.freshVal(p.Type(), p.Name())
		if t, ok := v.(T); ok && isPtrLike(p.Type()) {
			vc.assert(Le(t, al0))
		}
		if sv, ok := v.(*SliceV); ok {
			vc.assert(Le(sv.Arr, al0))
			// slice parameters are modelled as offset-0 views of their backing store
			sv.Off = I(0)
			vc.assume("slice parameters are offset-0 views: two slice arguments are either the same view or disjoint (no partially overlapping slice arguments)")
		}
		fr.env[p] = v
		fr.params = append(fr.params, v)
	}
	for _, fv := range fn.FreeVars {
		// standalone verification of a closure: captured variables are unknown cells
		vc.ncell++
		et := fv.Type().Underlying().(*types.Pointer).Elem()
		c := &Cell{ID: vc.ncell, Name: fv.Name(), Typ: et}
		st.cells[c] = vc.freshVal(et, fv.Name())
		fr.binds = append(fr.binds, &PtrV{Kind: PCell, Cell: c})
	}
	fr.old = st.clone()
	// preconditions
	ev := fr.evaluator(fr.old)
	ev.prefer = false
	ev.ctx = "requires of " + key
	var pres []T
	for _, rq := range ct.Requires {
		g := ev.evalBool(rq.E)
		vc.assert(g)
		pres = append(pres, g)
	}
	for _, df := range ct.Defines {
		vc.assert(ev.evalBool(df.E))
		vc.assume("definitional ghost function introduced by contract " + key + ": " + df.Src)
	}
	// evaluating requires may have touched globals lazily in fr.old: propagate
	for k, v := range fr.old.glob {
		if _, ok := st.glob[k]; !ok {
			st.glob[k] = v
		}
	}
	vc.cover("pre", "requires of "+key+" is satisfiable", tTrue)
	fr.frame = e.frameSpecOf(fr, ct)
	for k, v := range fr.old.glob {
		if _, ok := st.glob[k]; !ok {
			st.glob[k] = v
		}
	}
	fr.runRegion(nil, fn.Blocks[0], tTrue, st, nil)
	// vacuity guard: every call-site clause of the contract must have matched a real call site
	for _, k := range sortedKeys(ct.CallAsserts) {
		if !vc.firedSites[k] && !strings.HasSuffix(k, "#any") {
			var tags []string
			for _, cl := range ct.CallAsserts[k] {
				tags = append(tags, cl.Tags...)
			}
			vc.oblige("callsite", sanitize(k), "the call site '"+k+"' named by the contract exists on a reachable path (it carries an asserted clause)", tags, e.posString(fn.Pos()), tTrue, tFalse)
		}
	}
	for _, k := range sortedKeys(ct.CallSets) {
		if !vc.firedSites[k] && !strings.HasSuffix(k, "#any") {
			vc.oblige("callsite", sanitize(k)+".set", "the call site '"+k+"' named by the contract exists on a reachable path (it carries a ghost update)", nil, e.posString(fn.Pos()), tTrue, tFalse)
		}
	}
	if len(fr.rets) == 0 {
		vc.warn("function %s has no reachable return", key)
		res.finish()
		return
	}
	var incs []inc
	for _, r := range fr.rets {
		incs = append(incs, inc{nil, r.cond, r.st})
	}
	rc, rst := vc.mergeStates(incs)
	rc = vc.name("exit", rc)
	pev := fr.evaluator(rst)
	pev.prefer = false
	pev.ctx = "ensures of " + key
	nres := fn.Signature.Results().Len()
	for i := 0; i < nres; i++ {
		var cs []T
		var vs []Val
		for _, r := range fr.rets {
			cs = append(cs, r.cond)
			vs = append(vs, r.res[i])
		}
		rt := fn.Signature.Results().At(i).Type()
		v := vc.mergeVals(cs, vs, rt, "result")
		if i < len(ct.Results) && ct.Results[i] != "" && ct.Results[i] != "_" {
			pev.names[ct.Results[i]] = tv{v, rt}
		}
		if nres == 1 {
			pev.names["result"] = tv{v, rt}
		}
		pev.names[fmt.Sprintf("result%d", i)] = tv{v, rt}
	}
	for i, en := range ct.Ensures {
		g := pev.evalBool(en.E)
		label := fmt.Sprint(i)
		if len(en.Tags) > 0 {
			label = en.Tags[0]
		}
		vc.oblige("post", label, en.Src, en.Tags, e.posString(fn.Pos()), rc, g)
		// cover for implications: antecedent reachable
		if b, ok := en.E.(*EBin); ok && b.Op == "==>" {
			a := pev.evalBool(b.X)
			vc.cover("post-antecedent."+label, en.Src, And(rc, a))
		}
	}
	e.frameObligs(fr, ct, rc, rst, pev)
	res.finish()
	return
}

func (r *FuncResult) finish() {
	r.Obligs = r.VC.obligs
	r.Warns = r.VC.warns
	for k := range r.VC.assumed {
		r.Assumed = append(r.Assumed, k)
	}
	sort.Strings(r.Assumed)
}


// frameSpec is the function-level frame derived from the modifies clauses.
type frameSpec struct {
	heapAll   bool
	wholeKeys map[string]bool
	locs      map[string][]T // field key -> refs exempt
	elemArrs  map[string][]T // elem key -> backing arrays exempt
	prefixes  []string       // prefix("H_ltx_"): every key with that prefix is exempt
}

func (e *Engine) frameSpecOf(fr *Frame, ct *Contract) *frameSpec {
	vc := fr.x.vc
	fs := &frameSpec{wholeKeys: map[string]bool{}, locs: map[string][]T{}, elemArrs: map[string][]T{}}
	for _, m := range ct.Modifies {
		if id, ok := m.(*EIdent); ok && id.Name == "$heap" {
			fs.heapAll = true
			return fs
		}
	}
	oev := fr.evaluator(fr.old)
	oev.prefer = false
	for _, m := range ct.Modifies {
		switch n := m.(type) {
		case *EIdent:
			fs.wholeKeys[n.Name] = true
			continue
		case *ESel:
			base := oev.eval(n.X)
			if base.t != nil {
				if pt, ok := base.t.Underlying().(*types.Pointer); ok {
					if s := structOf(pt.Elem()); s != nil {
						for fi := 0; fi < s.NumFields(); fi++ {
							if s.Field(fi).Name() == n.Name {
								ref := vc.asRefStrict(base.v)
								if structOf(types.Unalias(s.Field(fi).Type())) != nil {
									// struct-valued field: its leaves live at the embedded struct's address
									ref = vc.subAddr(pt.Elem(), fi, ref)
								}
								for _, k := range fieldKeysOf(pt.Elem(), fi) {
									fs.locs[k] = append(fs.locs[k], ref)
								}
							}
						}
						continue
					}
				}
			}
		case *ECall:
			switch n.Fn {
			case "all":
				if len(n.Args) == 1 {
					if t := e.modAllType(oev.pkg, n.Args[0]); t != nil {
						for _, k := range t {
							fs.wholeKeys[k] = true
						}
						continue
					}
				}
			case "elems":
				a := oev.eval(n.Args[0])
				if sv, ok := a.v.(*SliceV); ok {
					et := types.Unalias(sv.Elem)
					if structOf(et) != nil {
						for _, k := range allFieldKeys(et) {
							fs.wholeKeys[k] = true
						}
					} else {
						fs.elemArrs[elemKey(et)] = append(fs.elemArrs[elemKey(et)], sv.Arr)
					}
					continue
				}
			case "key":
				if lit, ok := n.Args[0].(*EStr); ok {
					fs.wholeKeys[lit.V] = true
				}
				continue
			case "prefix":
				if lit, ok := n.Args[0].(*EStr); ok {
					fs.prefixes = append(fs.prefixes, lit.V)
				}
				continue
			case "deref":
				continue
			}
		}
	}
	return fs
}

// frameGoal: "key k changed only where the frame allows" between entry and cur.
// ok=false when the key is unconstrained by the frame.
func (fs *frameSpec) frameGoal(vc *VC, k string, entry, cur, al0 T) (T, bool) {
	if fs.heapAll || fs.wholeKeys[k] || k == "$alloc" || strings.HasPrefix(k, "$v") || k == "Elem_any" || cur.S == entry.S {
		return tTrue, false
	}
	for _, p := range fs.prefixes {
		if strings.HasPrefix(k, p) {
			return tTrue, false
		}
	}
	switch {
	case strings.HasPrefix(k, "H_") || strings.HasPrefix(k, "Mem_"):
		var ex []string
		for _, r := range fs.locs[k] {
			ex = append(ex, fmt.Sprintf("(not (= r %s))", r.S))
		}
		return T{fmt.Sprintf("(forall ((r Int)) (! (=> (and (< 0 (root r)) (<= (root r) %s) %s) (= (select %s r) (select %s r))) :pattern ((select %s r))))", al0.S, strings.Join(ex, " "), cur.S, entry.S, cur.S), SBool}, true
	case strings.HasPrefix(k, "Elem_") || strings.HasPrefix(k, "MapDom_") || strings.HasPrefix(k, "MapVal_"):
		var ex []string
		for _, r := range fs.elemArrs[k] {
			ex = append(ex, fmt.Sprintf("(not (= r %s))", r.S))
		}
		return T{fmt.Sprintf("(forall ((r Int)) (! (=> (and (< 0 r) (<= r %s) %s) (= (select %s r) (select %s r))) :pattern ((select %s r))))", al0.S, strings.Join(ex, " "), cur.S, entry.S, cur.S), SBool}, true
	}
	return Eq(cur, entry), true
}

// frameObligs checks that only locations named in modifies changed.
func (e *Engine) frameObligs(fr *Frame, ct *Contract, rc T, rst *State, pev *Eval) {
	vc := fr.x.vc
	fs := fr.frame
	if fs == nil || fs.heapAll {
		return
	}
	al0 := vc.getGlob(fr.old, "$alloc", SInt)
	for _, k := range sortedKeys(rst.glob) {
		exit := rst.glob[k]
		entry, ok := fr.old.glob[k]
		if !ok {
			entry = vc.initGlob(k, exit.Sort)
		}
		goal, ok := fs.frameGoal(vc, k, entry, exit, al0)
		if !ok {
			continue
		}
		vc.oblige("frame", sanitize(k), "only locations listed in modifies change: "+k, nil, "", rc, goal)
	}
}

func fieldKeysOf(st types.Type, fi int) []string {
	s := structOf(st)
	ft := types.Unalias(s.Field(fi).Type())
	if structOf(ft) != nil {
		return allFieldKeys(ft)
	}
	k := fieldKey(st, fi)
	if _, ok := ft.Underlying().(*types.Slice); ok {
		var out []string
		for _, p := range sliceParts {
			out = append(out, k+p)
		}
		return out
	}
	return []string{k}
}

func allFieldKeys(t types.Type) []string {
	s := structOf(t)
	var out []string
	for i := 0; i < s.NumFields(); i++ {
		out = append(out, fieldKeysOf(t, i)...)
	}
	return out
}

func (e *Engine) modAllType(pkg *types.Package, arg Expr) []string {
	switch n := arg.(type) {
	case *EIdent:
		if t := e.resolveTypeIn(pkg, n.Name); t != nil && structOf(t) != nil {
			return allFieldKeys(t)
		}
	case *ESel:
		if id, ok := n.X.(*EIdent); ok {
			if t := e.resolveType(id.Name + "." + n.Name); t != nil && structOf(t) != nil {
				return allFieldKeys(t)
			}
			if t := e.resolveTypeIn(pkg, id.Name); t != nil {
				if s := structOf(t); s != nil {
					for fi := 0; fi < s.NumFields(); fi++ {
						if s.Field(fi).Name() == n.Name {
							return fieldKeysOf(t, fi)
						}
					}
				}
			}
		}
		if sel2, ok := n.X.(*ESel); ok {
			if id, ok := sel2.X.(*EIdent); ok {
				if t := e.resolveType(id.Name + "." + sel2.Name); t != nil {
					if s := structOf(t); s != nil {
						for fi := 0; fi < s.NumFields(); fi++ {
							if s.Field(fi).Name() == n.Name {
								return fieldKeysOf(t, fi)
							}
						}
					}
				}
			}
		}
	}
	return nil
}

// ---------------------------------------------------------------------------
// Rendering and solving

func (e *Engine) prelude() string {
	var sb strings.Builder
	sb.WriteString("(set-option :produce-models true)\n(set-logic ALL)\n")
	sb.WriteString("(define-fun tdiv ((a Int) (b Int)) Int (ite (>= a 0) (ite (> b 0) (div a b) (- (div a (- b)))) (ite (> b 0) (- (div (- a) b)) (div (- a) (- b)))))\n")
	sb.WriteString("(define-fun tmod ((a Int) (b Int)) Int (- a (* b (tdiv a b))))\n")
	for _, bits := range []int{8, 16, 32, 64} {
		sb.WriteString(fmt.Sprintf("(define-fun wrapU%d ((x Int)) Int (ite (and (<= 0 x) (< x %s)) x (mod x %s)))\n", bits, pow2(bits), pow2(bits)))
		sb.WriteString(fmt.Sprintf("(define-fun wrapS%d ((x Int)) Int (ite (and (<= (- %s) x) (< x %s)) x (- (mod (+ x %s) %s) %s)))\n", bits, pow2(bits-1), pow2(bits-1), pow2(bits-1), pow2(bits), pow2(bits-1)))
	}
	// imul: product of two symbolic integers (kept uninterpreted; only these facts are used)
	sb.WriteString("(declare-fun imul (Int Int) Int)\n")
	sb.WriteString("(assert (forall ((a Int) (b Int)) (! (and (= (imul a b) (imul b a)) (=> (or (= a 0) (= b 0)) (= (imul a b) 0)) (=> (= a 1) (= (imul a b) b)) (=> (and (>= a 0) (>= b 0)) (>= (imul a b) 0)) (=> (and (>= a 1) (>= b 0)) (>= (imul a b) b)) (=> (and (>= a 0) (>= b 1)) (>= (imul a b) a)) (=> (and (>= a 0) (>= b 2)) (>= (imul a b) (+ a a))) (=> (and (<= 0 a) (< a 1099511627776) (<= 0 b) (< b 1048576)) (< (imul a b) 1152921504606846976))) :pattern ((imul a b)))))\n")
	sb.WriteString("(assert (forall ((a Int) (b Int)) (! (= (imul (+ a 1) b) (+ (imul a b) b)) :pattern ((imul (+ a 1) b)))))\n")
	sb.WriteString("(assert (forall ((a Int) (b Int)) (! (= (imul (- a 1) b) (- (imul a b) b)) :pattern ((imul (- a 1) b)))))\n")
	// sdiv/smod: Go quotient and remainder for a symbolic divisor (non-negative dividend, positive divisor)
	sb.WriteString("(declare-fun sdiv (Int Int) Int)\n(declare-fun smod (Int Int) Int)\n")
	sb.WriteString("(assert (forall ((a Int) (b Int)) (! (=> (and (>= a 0) (> b 0)) (and (= a (+ (imul (sdiv a b) b) (smod a b))) (<= 0 (smod a b)) (< (smod a b) b) (<= 0 (sdiv a b)) (<= (sdiv a b) a))) :pattern ((sdiv a b)) :pattern ((smod a b)))))\n")
	// root(r): the allocation a (possibly interior) address belongs to; plain references are positive, interior addresses negative
	sb.WriteString("(declare-fun rootneg (Int) Int)\n(define-fun root ((r Int)) Int (ite (> r 0) r (rootneg r)))\n")
	sb.WriteString("(define-fun rd_be32 ((a (Array Int Int)) (o Int)) Int (+ (* 16777216 (select a o)) (* 65536 (select a (+ o 1))) (* 256 (select a (+ o 2))) (select a (+ o 3))))\n")
	sb.WriteString("(define-fun rd_le32 ((a (Array Int Int)) (o Int)) Int (+ (* 16777216 (select a (+ o 3))) (* 65536 (select a (+ o 2))) (* 256 (select a (+ o 1))) (select a o)))\n")
	sb.WriteString("(define-fun rd_be16 ((a (Array Int Int)) (o Int)) Int (+ (* 256 (select a o)) (select a (+ o 1))))\n")
	sb.WriteString("(define-fun rd_le16 ((a (Array Int Int)) (o Int)) Int (+ (* 256 (select a (+ o 1))) (select a o)))\n")
	sb.WriteString("(define-fun rd_be64 ((a (Array Int Int)) (o Int)) Int (+ (* 4294967296 (rd_be32 a o)) (rd_be32 a (+ o 4))))\n")
	sb.WriteString("(define-fun rd_le64 ((a (Array Int Int)) (o Int)) Int (+ (* 4294967296 (rd_le32 a (+ o 4))) (rd_le32 a o)))\n")
	for _, b := range e.cs.SMT {
		sb.WriteString(b)
		sb.WriteString("\n")
	}
	return sb.String()
}

func (o *Oblig) render(prelude string, getModel bool) string {
	var sb strings.Builder
	sb.WriteString("; obligation " + o.ID + "\n; clause: " + strings.ReplaceAll(o.Clause, "\n", " ") + "\n")
	sb.WriteString(prelude)
	for _, s := range o.vc.sigs[:o.nsigs] {
		sb.WriteString(s)
		sb.WriteByte('\n')
	}
	for _, s := range o.vc.asserts[:o.nassert] {
		sb.WriteString(s)
		sb.WriteByte('\n')
	}
	if o.Cover {
		sb.WriteString("(assert " + o.Reach.S + ")\n")
	} else {
		sb.WriteString("(assert " + And(o.Reach, Not(o.Goal)).S + ")\n")
	}
	sb.WriteString("(check-sat)\n")
	if getModel {
		sb.WriteString("(get-model)\n")
	}
	return sb.String()
}

type solverSpec struct {
	name string
	argv func(file string, timeoutS int) []string
}

var solvers = []solverSpec{
	{"z3-new", func(f string, t int) []string { return []string{"z3-new", fmt.Sprintf("-T:%d", t), f} }},
	{"cvc5", func(f string, t int) []string { return []string{"cvc5", fmt.Sprintf("--tlimit=%d", t*1000), f} }},
	{"z3", func(f string, t int) []string { return []string{"z3", fmt.Sprintf("-T:%d", t), f} }},
	{"z3-new-nombqi", func(f string, t int) []string {
		return []string{"z3-new", fmt.Sprintf("-T:%d", t), "smt.mbqi=false", "smt.auto_config=false", f}
	}},
}

var havePrlimit = func() bool { _, err := exec.LookPath("prlimit"); return err == nil }()

// acquireSlot takes one of the machine-wide solver slots (advisory file locks shared by
// every gvc process), so that checks running side by side do not oversubscribe the cores.
func acquireSlot() func() {
	dir := filepath.Join(os.TempDir(), "gvc-slots")
	os.MkdirAll(dir, 0o777)
	n := runtime.NumCPU() / 2
	if v, err := strconv.Atoi(os.Getenv("GVC_SLOTS")); err == nil && v > 0 {
		n = v
	}
	for {
		for i := 0; i < n; i++ {
			f, err := os.OpenFile(filepath.Join(dir, fmt.Sprintf("slot%d", i)), os.O_CREATE|os.O_RDWR, 0o666)
			if err != nil {
				return func() {}
			}
			if syscall.Flock(int(f.Fd()), syscall.LOCK_EX|syscall.LOCK_NB) == nil {
				return func() { syscall.Flock(int(f.Fd()), syscall.LOCK_UN); f.Close() }
			}
			f.Close()
		}
		time.Sleep(40 * time.Millisecond)
	}
}

func runSolver(ctx context.Context, sp solverSpec, file string, timeoutS int) (verdict, out string, dur float64) {
	t0 := time.Now()
	// The budget is CPU time (RLIMIT_CPU via prlimit), so that a loaded machine slows a
	// query down without changing its verdict; the wall-clock cap is only a backstop.
	wall := timeoutS*8 + 5
	argv := sp.argv(file, wall)
	if havePrlimit {
		argv = append([]string{"prlimit", fmt.Sprintf("--cpu=%d", timeoutS)}, argv...)
	} else {
		wall = timeoutS + 2
		argv = sp.argv(file, timeoutS)
	}
	cctx, cancel := context.WithTimeout(ctx, time.Duration(wall)*time.Second)
	defer cancel()
	cmd := exec.CommandContext(cctx, argv[0], argv[1:]...)
	b, _ := cmd.CombinedOutput()
	dur = time.Since(t0).Seconds()
	out = string(b)
	first := strings.TrimSpace(strings.SplitN(out, "\n", 2)[0])
	switch first {
	case "unsat", "sat", "unknown":
		verdict = first
	case "timeout":
		verdict = "timeout"
	default:
		if cctx.Err() != nil || (cmd.ProcessState != nil && !cmd.ProcessState.Success() && strings.TrimSpace(out) == "") || strings.Contains(out, "Killed") {
			verdict = "timeout"
		} else if strings.Contains(out, "error") || strings.Contains(out, "Error") {
			verdict = "error"
		} else {
			verdict = "unknown"
		}
	}
	return
}

// symbolsOf extracts identifier-like tokens of an SMT line.
func symbolsOf(line string) []string {
	var out []string
	start := -1
	for i := 0; i <= len(line); i++ {
		var c byte = ' '
		if i < len(line) {
			c = line[i]
		}
		if c == ' ' || c == '(' || c == ')' || c == '\n' || c == '\t' {
			if start >= 0 {
				out = append(out, line[start:i])
				start = -1
			}
			continue
		}
		if start < 0 {
			start = i
		}
	}
	return out
}

// renderVariant renders the obligation keeping only selected assumptions.
// mode "qf": no quantified assumptions; "adj": quantified assumptions only when
// they share a non-hub symbol with the goal. Dropping assumptions is sound.
func (o *Oblig) renderVariant(prelude, mode string) string {
	var sb strings.Builder
	sb.WriteString("; obligation " + o.ID + " [" + mode + "]\n")
	sb.WriteString(prelude)
	hub := map[string]bool{}
	for _, s := range o.vc.sigs[:o.nsigs] {
		sb.WriteString(s)
		sb.WriteByte('\n')
		if strings.HasPrefix(s, "(declare-fun ") {
			f := strings.Fields(s)
			if len(f) > 1 {
				hub[f[1]] = true
			}
		}
	}
	goal := "(assert " + And(o.Reach, Not(o.Goal)).S + ")"
	goalSyms := map[string]bool{}
	for _, t := range symbolsOf(goal) {
		if !hub[t] && o.vc.decl[t] && !strings.HasSuffix(t, "@0") {
			goalSyms[t] = true
		}
	}
	if mode == "adj" {
		// one step of ground definitions: symbols defined in terms of goal symbols stay relevant
		for _, a := range o.vc.asserts[:o.nassert] {
			if strings.Contains(a, "forall") || strings.Contains(a, "exists") {
				continue
			}
			if !strings.HasPrefix(a, "(assert (= ") {
				continue
			}
			syms := symbolsOf(a)
			hit := false
			for _, t := range syms {
				if goalSyms[t] {
					hit = true
					break
				}
			}
			if hit && len(syms) < 40 {
				for _, t := range syms {
					if !hub[t] && o.vc.decl[t] && !strings.HasSuffix(t, "@0") && !strings.HasPrefix(t, "r!") && !strings.HasPrefix(t, "c!") && !strings.HasPrefix(t, "rl!") {
						goalSyms[t] = true
					}
				}
			}
		}
	}
	for _, a := range o.vc.asserts[:o.nassert] {
		if strings.Contains(a, "forall") || strings.Contains(a, "exists") {
			if mode == "qf" {
				continue
			}
			hit := false
			for _, t := range symbolsOf(a) {
				if goalSyms[t] {
					hit = true
					break
				}
			}
			if !hit {
				continue
			}
		}
		sb.WriteString(a)
		sb.WriteByte('\n')
	}
	sb.WriteString(goal + "\n(check-sat)\n")
	return sb.String()
}

// solve discharges one obligation: quick attempts on sliced and full queries, then a race.
func (e *Engine) solve(o *Oblig, dir string, timeoutS int, prelude string) {
	file := filepath.Join(dir, sanitize(o.ID)+".smt2")
	os.WriteFile(file, []byte(o.render(prelude, true)), 0o644)
	o.Outputs = map[string]string{}
	t0 := time.Now()
	type r struct {
		name, v, out string
	}
	type job struct {
		sp      solverSpec
		file    string
		label   string
		timeout int
		full    bool
	}
	var jobs []job
	quick := 3
	if quick > timeoutS {
		quick = timeoutS
	}
	jobs = append(jobs, job{solvers[0], file, solvers[0].name, quick, true})
	if !o.Cover {
		for _, mode := range []string{"qf", "adj"} {
			vf := filepath.Join(dir, sanitize(o.ID)+"."+mode+".smt2")
			os.WriteFile(vf, []byte(o.renderVariant(prelude, mode)), 0o644)
			jobs = append(jobs, job{solvers[0], vf, solvers[0].name + "/" + mode, quick, false})
		}
	}
	run := func(jobs []job) (best r) {
		ctx, cancel := context.WithCancel(context.Background())
		defer cancel()
		ch := make(chan r, len(jobs))
		full := map[string]bool{}
		for _, j := range jobs {
			j := j
			full[j.label] = j.full
			go func() {
				v, out, _ := runSolver(ctx, j.sp, j.file, j.timeout)
				ch <- r{j.label, v, out}
			}()
		}
		best = r{v: "unknown"}
		for range jobs {
			x := <-ch
			if !full[x.name] && x.v != "unsat" {
				continue // a sliced query can only prove, never refute
			}
			o.Outputs[x.name] = trimOut(x.out)
			if x.v == "unsat" {
				best = x
				return
			}
			if x.v == "sat" && best.v != "sat" {
				best = x
				if o.Cover {
					return
				}
			} else if best.v == "unknown" && x.v == "timeout" {
				best = r{x.name, "timeout", x.out}
			}
		}
		return
	}
	best := run(jobs)
	if best.v != "unsat" && best.v != "sat" && timeoutS > quick {
		jobs = nil
		if o.Cover {
			// a vacuity guard only needs a refutation (unsat) to fail; contradictions show up
			// fast, so two solvers with half the budget are enough
			ct := timeoutS / 2
			if ct < quick {
				ct = quick
			}
			jobs = append(jobs, job{solvers[0], file, solvers[0].name, ct, true}, job{solvers[1], file, solvers[1].name, ct, true})
		} else {
			for _, sp := range solvers {
				jobs = append(jobs, job{sp, file, sp.name, timeoutS, true})
			}
		}
		if !o.Cover {
			adj := filepath.Join(dir, sanitize(o.ID)+".adj.smt2")
			qf := filepath.Join(dir, sanitize(o.ID)+".qf.smt2")
			jobs = append(jobs, job{solvers[0], adj, "z3-new/adj", timeoutS, false}, job{solvers[1], adj, "cvc5/adj", timeoutS, false}, job{solvers[0], qf, "z3-new/qf", timeoutS, false})
		}
		best = run(jobs)
	}
	o.Result, o.Solver, o.TimeS = best.v, best.name, time.Since(t0).Seconds()
	if best.v == "sat" {
		o.Model = best.out
	}
}

func trimOut(s string) string {
	if len(s) > 6000 {
		return s[:6000] + "\n...[truncated]"
	}
	return s
}

// ok reports whether the obligation is discharged.
func (o *Oblig) ok() bool {
	if o.Cover {
		return o.Result != "unsat" // sat or unknown: reachable as far as we can tell
	}
	return o.Result == "unsat"
}

func (e *Engine) solveAll(obls []*Oblig, dir string, timeoutS, par int) {
	prelude := e.prelude()
	var wg sync.WaitGroup
	sem := make(chan struct{}, par)
	for _, o := range obls {
		o := o
		wg.Add(1)
		sem <- struct{}{}
		go func() {
			defer wg.Done()
			defer func() { <-sem }()
			release := acquireSlot()
			defer release()
			e.solve(o, dir, timeoutS, prelude)
		}()
	}
	wg.Wait()
}

var _ = ssa.NaiveForm
