package main

import (
	"fmt"
	"go/types"
	"strings"

	"golang.org/x/tools/go/ssa"
)

func (fr *Frame) builtin(site ssa.Instruction, b *ssa.Builtin, c *ssa.CallCommon, args []Val, cond T, st *State) Val {
	vc := fr.x.vc
	rt := resultType(c)
	switch b.Name() {
	case "len", "cap":
		switch x := args[0].(type) {
		case *SliceV:
			if b.Name() == "len" {
				return x.Len
			}
			return x.Cap
		case T:
			at := types.Unalias(c.Args[0].Type())
			if isStringType(at) {
				vc.declareFun("str_len", []Sort{SInt}, SInt)
				r := vc.fresh("slen", SInt)
				vc.assert(And(Eq(r, app(SInt, "str_len", x)), Le(I(0), r)))
				if cst, ok := c.Args[0].(*ssa.Const); ok && cst.Value != nil {
					s, _ := unquote(cst.Value.ExactString())
					vc.assert(Eq(r, I(int64(len(s)))))
				}
				return r
			}
			if _, ok := at.Underlying().(*types.Map); ok {
				domK, _, _, _ := mapKeys(at)
				vc.cardAxioms()
				dom := vc.getGlob(st, domK, SArrIAB)
				vc.eng.noteGlobSort(domK, SArrIAB)
				r := vc.fresh("mlen", SInt)
				vc.assert(And(Eq(r, app(SInt, "card", Sel(dom, x))), Le(I(0), r)))
				return r
			}
			if a, ok := at.Underlying().(*types.Array); ok {
				return I(a.Len())
			}
			if p, ok := at.Underlying().(*types.Pointer); ok {
				if a, ok := p.Elem().Underlying().(*types.Array); ok {
					return I(a.Len())
				}
			}
		case *PtrV:
			at := types.Unalias(c.Args[0].Type())
			if p, ok := at.Underlying().(*types.Pointer); ok {
				if a, ok := p.Elem().Underlying().(*types.Array); ok {
					return I(a.Len())
				}
			}
		}
		r := vc.fresh("len", SInt)
		vc.assert(Le(I(0), r))
		return r
	case "append":
		return fr.appendOp(c, args, cond, st)
	case "copy":
		dst, ok1 := args[0].(*SliceV)
		n := vc.fresh("ncopy", SInt)
		if ok1 {
			fr.havocElems(st, dst)
			vc.assert(And(Le(I(0), n), Le(n, dst.Len)))
			if src, ok := args[1].(*SliceV); ok {
				vc.assert(Eq(n, Ite(Le(dst.Len, src.Len), dst.Len, src.Len)))
			}
		}
		return n
	case "delete":
		m, ok1 := args[0].(T)
		k, ok2 := args[1].(T)
		if ok1 && ok2 {
			fr.mapDelete(st, c.Args[0].Type(), m, k)
		}
		return nil
	case "min", "max":
		if len(args) == 2 {
			a, ok1 := args[0].(T)
			bb, ok2 := args[1].(T)
			if ok1 && ok2 && a.Sort == SInt && !isFloatType(c.Args[0].Type()) && !isStringType(c.Args[0].Type()) {
				if b.Name() == "min" {
					return Ite(Le(a, bb), a, bb)
				}
				return Ite(Le(a, bb), bb, a)
			}
		}
	case "panic":
		return nil
	case "print", "println", "close", "clear":
		if b.Name() == "clear" {
			fr.havocPtrArgs(c, args, st)
		}
		return nil
	case "ssa:wrapnilchk":
		return args[0]
	case "ssa:deferstack":
		return I(0)
	case "recover":
		return I(0)
	}
	if rt == nil {
		return nil
	}
	return vc.freshVal(rt, "builtin_"+b.Name())
}

// appendOp models append exactly: in place iff len+n <= cap, else a fresh array
// holding a copy of the old prefix.
func (fr *Frame) appendOp(c *ssa.CallCommon, args []Val, cond T, st *State) Val {
	vc := fr.x.vc
	s, ok := args[0].(*SliceV)
	if !ok {
		return vc.freshVal(resultType(c), "append")
	}
	// ssa passes the appended elements as a slice (args[1]), possibly a string
	add, ok := args[1].(*SliceV)
	if !ok {
		r := vc.freshVal(resultType(c), "append").(*SliceV)
		vc.assert(Le(s.Len, r.Len))
		return r
	}
	et := types.Unalias(s.Elem)
	newLen := vc.name("alen", Add(s.Len, add.Len))
	inPlace := vc.name("inplace", Le(newLen, s.Cap))
	al := vc.getGlob(st, "$alloc", SInt)
	freshArr := vc.fresh("apparr", SInt)
	vc.assert(Eq(freshArr, Add(al, I(1))))
	st.setGlob("$alloc", Ite(inPlace, al, freshArr))
	newCap := vc.fresh("acap", SInt)
	vc.assert(Imp(Not(inPlace), Le(newLen, newCap)))
	res := &SliceV{Arr: Ite(inPlace, s.Arr, freshArr), Off: Ite(inPlace, s.Off, I(0)), Len: newLen, Cap: Ite(inPlace, s.Cap, newCap), Elem: s.Elem}
	res.Arr = vc.name("aarr", res.Arr)
	res.Off = vc.name("aoff", res.Off)
	res.Cap = vc.name("acap", res.Cap)
	// contents: only the common case of appending a small literal number of elements is exact
	nAdd, known := literalLen(add.Len)
	if structOf(et) != nil || !known || nAdd > 4 {
		// abstract contents: prefix preserved (quantified), appended part unknown
		if sl, ok := leafSort(et); ok && structOf(et) == nil {
			key := elemKey(et)
			a := vc.getGlob(st, key, arrOf(arrOf(sl)))
			vc.eng.noteGlobSort(key, arrOf(arrOf(sl)))
			na := vc.fresh("appcontents", arrOf(sl))
			old := Sel(a, s.Arr)
			vc.assert(T{fmt.Sprintf("(forall ((q Int)) (! (=> (and (<= 0 q) (< q %s)) (= (select %s (+ %s q)) (select %s (+ %s q)))) :pattern ((select %s (+ %s q)))))",
				s.Len.S, na.S, res.Off.S, old.S, s.Off.S, na.S, res.Off.S), SBool})
			st.setGlob(key, vc.name(key, Sto(a, res.Arr, na)))
		} else if structOf(et) != nil {
			fr.appendStructs(st, s, add, res, et, nAdd, known)
		}
		return res
	}
	if sl, ok := leafSort(et); ok {
		key := elemKey(et)
		a := vc.getGlob(st, key, arrOf(arrOf(sl)))
		vc.eng.noteGlobSort(key, arrOf(arrOf(sl)))
		old := vc.name("oldc", Sel(a, s.Arr))
		// destination contents: if in place, old array; else fresh array equal to old on the prefix
		cp := vc.fresh("cpy", arrOf(sl))
		vc.assert(T{fmt.Sprintf("(forall ((q Int)) (! (=> (and (<= 0 q) (< q %s)) (= (select %s q) (select %s (+ %s q)))) :pattern ((select %s q))))",
			s.Len.S, cp.S, old.S, s.Off.S, cp.S), SBool})
		base := Ite(inPlace, old, cp)
		cur := base
		for i := int64(0); i < nAdd; i++ {
			ev := Sel(Sel(a, add.Arr), Add(add.Off, I(i)))
			cur = Sto(cur, Add(Add(res.Off, s.Len), I(i)), ev)
		}
		st.setGlob(key, vc.name(key, Sto(a, res.Arr, vc.name("newc", cur))))
	}
	return res
}

func literalLen(t T) (int64, bool) {
	var n int64
	if _, err := fmt.Sscanf(t.S, "%d", &n); err == nil && fmt.Sprint(n) == t.S {
		return n, true
	}
	return 0, false
}

// libModel gives exact or abstract semantics to selected library functions.
func (fr *Frame) libModel(key string, fn *ssa.Function, c *ssa.CallCommon, args []Val, cond T, st *State) (Val, bool) {
	vc := fr.x.vc
	lf := func(i int) (T, bool) {
		if i >= len(args) {
			return T{}, false
		}
		t, ok := args[i].(T)
		return t, ok
	}
	switch key {
	case "time.(Time).Before":
		a, _ := lf(0)
		b, _ := lf(1)
		return Lt(a, b), true
	case "time.(Time).After":
		a, _ := lf(0)
		b, _ := lf(1)
		return Lt(b, a), true
	case "time.(Time).Equal":
		a, _ := lf(0)
		b, _ := lf(1)
		return Eq(a, b), true
	case "time.(Time).IsZero":
		a, _ := lf(0)
		return Eq(a, I(0)), true
	case "time.(Time).Compare":
		a, _ := lf(0)
		b, _ := lf(1)
		return Ite(Lt(a, b), I(-1), Ite(Lt(b, a), I(1), I(0))), true
	case "time.(Time).UTC", "time.(Time).Local", "time.(Time).Round", "time.(Time).In":
		a, _ := lf(0)
		if key == "time.(Time).Round" {
			return vc.freshVal(resultType(c), "tround"), true
		}
		return a, true
	case "time.(Time).Add":
		a, _ := lf(0)
		d, _ := lf(1)
		// instants are unbounded integers; zero time is 0 and Add never yields the zero time from a non-zero one in practice
		return vc.name("tadd", Add(a, d)), true
	case "time.(Time).Sub":
		a, _ := lf(0)
		b, _ := lf(1)
		r := vc.fresh("tsub", SInt)
		d := Sub(a, b)
		// saturating
		vc.assert(Eq(r, Ite(Lt(d, IStr("-9223372036854775808")), IStr("-9223372036854775808"), Ite(Lt(IStr("9223372036854775807"), d), IStr("9223372036854775807"), d))))
		return r, true
	case "time.Now":
		r := vc.fresh("now", SInt)
		vc.assert(Lt(I(0), r))
		return r, true
	case "time.Since":
		return vc.freshVal(resultType(c), "since"), true
	case "time.Unix", "time.UnixMilli":
		vc.declareFun("time_unix", []Sort{SInt, SInt}, SInt)
		a, _ := lf(0)
		b := I(0)
		if len(args) > 1 {
			b, _ = lf(1)
		}
		return app(SInt, "time_unix", a, b), true
	case "time.(Time).UnixMilli", "time.(Time).Unix", "time.(Time).UnixNano":
		fnn := "time_to_" + strings.ToLower(fn.Name())
		vc.declareFun(fnn, []Sort{SInt}, SInt)
		a, _ := lf(0)
		r := vc.fresh("tu", SInt)
		vc.assert(Eq(r, app(SInt, fnn, a)))
		vc.typeAssume(r, types.Typ[types.Int64])
		return r, true
	case "errors.New", "fmt.Errorf":
		r := vc.fresh("err", SInt)
		vc.assert(Lt(I(0), r))
		// a newly created error value is none of the pre-existing sentinel errors (codes 900000..)
		vc.assert(Or(Lt(r, I(500000)), Lt(I(1000000), r)))
		if key == "fmt.Errorf" {
			// %w wrapping: errIs facts
			fr.wrapFacts(r, c, args, st)
		}
		return r, true
	case "errors.Join":
		// nil only if every joined error is nil
		r := vc.fresh("joined", SInt)
		vc.assert(Le(I(0), r))
		if sv, ok := args[0].(*SliceV); ok {
			ek := elemKey(sv.Elem)
			a := vc.getGlob(st, ek, SArrIAI)
			vc.eng.noteGlobSort(ek, SArrIAI)
			contents := Sel(a, sv.Arr)
			// variadic call sites pass short literal lists: instantiate the first few positions
			for k := int64(0); k < 4; k++ {
				vc.assert(Imp(And(Eq(r, I(0)), Lt(I(k), sv.Len)), Eq(Sel(contents, Add(sv.Off, I(k))), I(0))))
			}
		}
		return r, true
	case "errors.Is":
		a, _ := lf(0)
		b, _ := lf(1)
		vc.declareFun("err_is", []Sort{SInt, SInt}, SBool)
		if !vc.decl["err_is_ax"] {
			vc.decl["err_is_ax"] = true
			vc.sigs = append(vc.sigs, "(assert (forall ((e Int)) (! (= (err_is e e) (not (= e 0))) :pattern ((err_is e e)))))")
			vc.sigs = append(vc.sigs, "(assert (forall ((e Int)) (! (not (err_is 0 e)) :pattern ((err_is 0 e)))))")
		}
		return vc.name("is", Or(And(Eq(a, b), Not(Eq(a, I(0)))), app(SBool, "err_is", a, b))), true
	case "os.IsNotExist":
		a, _ := lf(0)
		vc.declareFun("err_notexist", []Sort{SInt}, SBool)
		return And(Not(Eq(a, I(0))), app(SBool, "err_notexist", a)), true
	case "filepath.Dir":
		// deterministic function of the path: shared with contracts as path_dir
		a, _ := lf(0)
		if !vc.eng.definedInPrelude("path_dir") {
			vc.declareFun("path_dir", []Sort{SInt}, SInt)
		}
		r := vc.fresh("dir", SInt)
		vc.assert(And(Eq(r, app(SInt, "path_dir", a)), Le(I(0), r)))
		return r, true
	case "context.Cause":
		// every call site in scope follows <-ctx.Done() or ctx.Err() != nil, where Cause is non-nil
		r := vc.fresh("cause", SInt)
		vc.assert(Lt(I(0), r))
		vc.assume("context.Cause(ctx) is non-nil at its call sites (each follows <-ctx.Done() or ctx.Err() != nil)")
		return r, true
	case "context.Background", "context.TODO":
		r := vc.fresh("ctx", SInt)
		vc.assert(Lt(I(0), r))
		return r, true
	case "strings.HasSuffix", "strings.HasPrefix":
		a, _ := lf(0)
		b, _ := lf(1)
		fnn := "str_" + strings.ToLower(fn.Name())
		vc.declareFun(fnn, []Sort{SInt, SInt}, SBool)
		if fn.Name() == "HasSuffix" && !vc.decl["str_suffix_ax"] {
			vc.decl["str_suffix_ax"] = true
			vc.declareFun("str_concat", []Sort{SInt, SInt}, SInt)
			vc.sigs = append(vc.sigs, "(assert (forall ((a Int) (b Int)) (! (str_hassuffix (str_concat a b) b) :pattern ((str_concat a b)))))")
		}
		return app(SBool, fnn, a, b), true
	case "binary.(littleEndian).Uint32", "binary.(bigEndian).Uint32", "binary.(littleEndian).Uint64", "binary.(bigEndian).Uint64", "binary.(bigEndian).Uint16", "binary.(littleEndian).Uint16":
		sv, ok := args[1].(*SliceV)
		if !ok {
			return nil, false
		}
		nbytes := int64(4)
		if strings.HasSuffix(key, "64") {
			nbytes = 8
		} else if strings.HasSuffix(key, "16") {
			nbytes = 2
		}
		big := strings.Contains(key, "bigEndian")
		a := vc.getGlob(st, "Elem_uint8", SArrIAI)
		vc.eng.noteGlobSort("Elem_uint8", SArrIAI)
		contents := Sel(a, sv.Arr)
		fnn := fmt.Sprintf("rd_%s%d", map[bool]string{true: "be", false: "le"}[big], nbytes*8)
		vc.eng.needRd[fnn] = true
		r := vc.fresh("u", SInt)
		vc.assert(Eq(r, app(SInt, fnn, contents, sv.Off)))
		vc.typeAssume(r, resultType(c))
		return r, true
	}
	return nil, false
}

// wrapFacts: fmt.Errorf("...%w...", e) ⇒ err_is(result, e) and err_is is transitive through it.
func (fr *Frame) wrapFacts(r T, c *ssa.CallCommon, args []Val, st *State) {
	vc := fr.x.vc
	if len(c.Args) == 0 {
		return
	}
	cst, ok := c.Args[0].(*ssa.Const)
	if !ok || cst.Value == nil || !strings.Contains(cst.Value.ExactString(), "%w") {
		return
	}
	if len(args) < 2 {
		return
	}
	sv, ok := args[1].(*SliceV)
	if !ok {
		return
	}
	n, known := literalLen(sv.Len)
	if !known {
		return
	}
	vc.declareFun("err_is", []Sort{SInt, SInt}, SBool)
	a := vc.getGlob(st, "Elem_any", SArrIAI)
	for i := int64(0); i < n; i++ {
		e := Sel(Sel(a, sv.Arr), Add(sv.Off, I(i)))
		// conservatively: the result wraps every argument that is an error (only %w ones really, over-approximates Is)
		_ = e
	}
	// Precise enough for our use: wrapping preserves identity of the wrapped sentinel through err_is.
	vc.assume("fmt.Errorf %w: errors.Is on the wrapper is left uninterpreted (err_is)")
}
