package main

import (
	"fmt"
	"go/token"
	"go/types"
	"sort"
	"strings"

	"golang.org/x/tools/go/ssa"
)

// Oblig is one proof obligation.
type Oblig struct {
	ID      string
	Kind    string
	Fn      string
	Clause  string
	Tags    []string // property clause tags, e.g. "C08.chain"
	Pos     string
	nsigs   int
	nassert int
	Reach   T
	Goal    T
	Cover   bool // cover query: expect SAT of Reach (Goal ignored)
	vc      *VC
	Expect  string // "unsat" normally, "sat" for cover

	// results
	Result  string
	Solver  string
	TimeS   float64
	Model   string
	Outputs map[string]string
}

// VC accumulates the passified program of one verification unit (one function).
type VC struct {
	eng     *Engine
	sigs    []string
	asserts []string
	decl    map[string]bool
	nfresh  int
	obligs  []*Oblig
	dry     int
	warns   []string
	assumed map[string]bool // trusted things used
	fnKey   string
	ncell   int
	strlits map[string]int
	oblSeq  map[string]int
	inQuant int
	firedSites map[string]bool
}

func newVC(e *Engine, fnKey string) *VC {
	return &VC{eng: e, decl: map[string]bool{}, assumed: map[string]bool{}, fnKey: fnKey, strlits: map[string]int{}, oblSeq: map[string]int{}}
}

func (vc *VC) warn(format string, a ...any) {
	if vc.dry > 0 {
		return
	}
	w := fmt.Sprintf(format, a...)
	for _, x := range vc.warns {
		if x == w {
			return
		}
	}
	vc.warns = append(vc.warns, w)
}

func (vc *VC) assume(name string) { vc.assumed[name] = true }

func (vc *VC) declare(name string, s Sort) T {
	if !vc.decl[name] {
		vc.decl[name] = true
		vc.sigs = append(vc.sigs, fmt.Sprintf("(declare-const %s %s)", name, s))
	}
	return T{name, s}
}

func (vc *VC) declareFun(name string, args []Sort, res Sort) {
	if vc.decl[name] {
		return
	}
	vc.decl[name] = true
	var as []string
	for _, a := range args {
		as = append(as, a.String())
	}
	vc.sigs = append(vc.sigs, fmt.Sprintf("(declare-fun %s (%s) %s)", name, strings.Join(as, " "), res))
}

func sanitize(s string) string {
	var sb strings.Builder
	for _, r := range s {
		if r >= 'a' && r <= 'z' || r >= 'A' && r <= 'Z' || r >= '0' && r <= '9' || r == '_' {
			sb.WriteRune(r)
		} else {
			sb.WriteByte('_')
		}
	}
	return sb.String()
}

func (vc *VC) fresh(hint string, s Sort) T {
	vc.nfresh++
	return vc.declare(fmt.Sprintf("%s!%d", sanitize(hint), vc.nfresh), s)
}

func (vc *VC) assert(t T) {
	if t.S == "true" {
		return
	}
	vc.asserts = append(vc.asserts, "(assert "+t.S+")")
}

// name binds a (possibly large) term to a fresh constant.
func (vc *VC) name(hint string, t T) T {
	if len(t.S) < 48 || vc.inQuant > 0 {
		return t
	}
	n := vc.fresh(hint, t.Sort)
	vc.assert(Eq(n, t))
	return n
}

// sexprArgs splits "(op a b c)" into op and top-level arguments.
func sexprArgs(s string) (string, []string, bool) {
	if len(s) < 2 || s[0] != '(' || s[len(s)-1] != ')' {
		return "", nil, false
	}
	body := s[1 : len(s)-1]
	var parts []string
	depth, start := 0, 0
	inBar := false
	for i := 0; i < len(body); i++ {
		c := body[i]
		switch {
		case c == '|':
			inBar = !inBar
		case inBar:
		case c == '(':
			depth++
		case c == ')':
			depth--
		case c == ' ' && depth == 0:
			if i > start {
				parts = append(parts, body[start:i])
			}
			start = i + 1
		}
	}
	if start < len(body) {
		parts = append(parts, body[start:])
	}
	if len(parts) == 0 {
		return "", nil, false
	}
	return parts[0], parts[1:], true
}

// splitGoal splits a goal into conjuncts, distributing implications.
func splitGoal(g T) []T {
	op, args, ok := sexprArgs(g.S)
	if !ok {
		return []T{g}
	}
	switch {
	case op == "and":
		var out []T
		for _, a := range args {
			out = append(out, splitGoal(T{a, SBool})...)
		}
		return out
	case op == "=>" && len(args) == 2:
		sub := splitGoal(T{args[1], SBool})
		if len(sub) == 1 {
			return []T{g}
		}
		var out []T
		for _, y := range sub {
			out = append(out, Imp(T{args[0], SBool}, y))
		}
		return out
	}
	return []T{g}
}

func (vc *VC) oblige(kind, label, clause string, tags []string, pos string, reach, goal T) {
	if vc.dry > 0 {
		return
	}
	if parts := splitGoal(goal); len(parts) > 1 && len(parts) <= 24 {
		for i, p := range parts {
			vc.oblige1(kind, fmt.Sprintf("%s.c%d", label, i), clause, tags, pos, reach, p)
		}
		return
	}
	vc.oblige1(kind, label, clause, tags, pos, reach, goal)
}

func (vc *VC) oblige1(kind, label, clause string, tags []string, pos string, reach, goal T) {
	base := vc.fnKey + "/" + kind
	if label != "" {
		base += "#" + label
	}
	vc.oblSeq[base]++
	id := base
	if n := vc.oblSeq[base]; n > 1 {
		id = fmt.Sprintf("%s~%d", base, n)
	}
	vc.obligs = append(vc.obligs, &Oblig{ID: id, Kind: kind, Fn: vc.fnKey, Clause: clause, Tags: tags, Pos: pos,
		nsigs: len(vc.sigs), nassert: len(vc.asserts), Reach: reach, Goal: goal, vc: vc, Expect: "unsat"})
}

func (vc *VC) cover(label, clause string, reach T) {
	if vc.dry > 0 {
		return
	}
	id := vc.fnKey + "/cover#" + label
	vc.oblSeq[id]++
	if n := vc.oblSeq[id]; n > 1 {
		id = fmt.Sprintf("%s~%d", id, n)
	}
	vc.obligs = append(vc.obligs, &Oblig{ID: id, Kind: "cover", Fn: vc.fnKey, Clause: clause,
		nsigs: len(vc.sigs), nassert: len(vc.asserts), Reach: reach, Goal: tTrue, vc: vc, Cover: true, Expect: "sat"})
}

func (vc *VC) strLit(s string) T {
	if s == "" {
		return I(0)
	}
	id, ok := vc.strlits[s]
	if !ok {
		id = vc.eng.strID(s)
		vc.strlits[s] = id
	}
	return I(int64(id))
}

// ---------------------------------------------------------------------------
// Fresh and zero values by type

func (vc *VC) typeAssume(t T, typ types.Type) {
	if t.Sort != SInt {
		return
	}
	typ = types.Unalias(typ)
	if opaqueStruct(typ) {
		return
	}
	if lo, hi, ok := intRange(typ); ok {
		vc.assert(T{fmt.Sprintf("(and (<= %s %s) (<= %s %s))", IStr(lo).S, t.S, t.S, hi), SBool})
		return
	}
	switch typ.Underlying().(type) {
	case *types.Map, *types.Chan:
		vc.assert(Le(I(0), t))
	case *types.Pointer, *types.Interface:
		// no sign constraint: interior pointers (into slices / embedded structs) are negative addresses
	}
	if b, ok := typ.Underlying().(*types.Basic); ok && b.Info()&types.IsString != 0 {
		vc.assert(Le(I(0), t))
	}
}

func (vc *VC) freshVal(typ types.Type, hint string) Val {
	typ = types.Unalias(typ)
	if s, ok := leafSort(typ); ok {
		t := vc.fresh(hint, s)
		vc.typeAssume(t, typ)
		return t
	}
	switch u := typ.Underlying().(type) {
	case *types.Struct:
		sv := &StructV{Typ: typ}
		for i := 0; i < u.NumFields(); i++ {
			sv.F = append(sv.F, vc.freshVal(u.Field(i).Type(), hint+"_"+u.Field(i).Name()))
		}
		return sv
	case *types.Slice:
		arr, off, ln, cp := vc.fresh(hint+"_arr", SInt), vc.fresh(hint+"_off", SInt), vc.fresh(hint+"_len", SInt), vc.fresh(hint+"_cap", SInt)
		vc.assert(T{fmt.Sprintf("(and (<= 0 %s) (<= 0 %s) (<= 0 %s) (<= %s %s) (<= %s 4611686018427387904) (=> (= %s 0) (= %s 0)))", arr.S, off.S, ln.S, ln.S, cp.S, cp.S, arr.S, cp.S), SBool})
		return &SliceV{Arr: arr, Off: off, Len: ln, Cap: cp, Elem: u.Elem()}
	case *types.Tuple:
		tv := &TupleV{}
		for i := 0; i < u.Len(); i++ {
			tv.E = append(tv.E, vc.freshVal(u.At(i).Type(), fmt.Sprintf("%s_%d", hint, i)))
		}
		return tv
	}
	return vc.fresh(hint, SInt)
}

func (vc *VC) zeroVal(typ types.Type) Val {
	typ = types.Unalias(typ)
	if s, ok := leafSort(typ); ok {
		switch s {
		case SInt:
			return I(0)
		case SBool:
			return tFalse
		case SArrII:
			return T{"((as const (Array Int Int)) 0)", SArrII}
		case SArrIB:
			return T{"((as const (Array Int Bool)) false)", SArrIB}
		}
	}
	switch u := typ.Underlying().(type) {
	case *types.Struct:
		sv := &StructV{Typ: typ}
		for i := 0; i < u.NumFields(); i++ {
			sv.F = append(sv.F, vc.zeroVal(u.Field(i).Type()))
		}
		return sv
	case *types.Slice:
		return &SliceV{Arr: I(0), Off: I(0), Len: I(0), Cap: I(0), Elem: u.Elem()}
	case *types.Tuple:
		tv := &TupleV{}
		for i := 0; i < u.Len(); i++ {
			tv.E = append(tv.E, vc.zeroVal(u.At(i).Type()))
		}
		return tv
	}
	return I(0)
}

// ---------------------------------------------------------------------------
// Merging

type inc struct {
	from *ssa.BasicBlock
	cond T
	st   *State
}

func valEqual(a, b Val) bool {
	switch x := a.(type) {
	case T:
		y, ok := b.(T)
		return ok && x.S == y.S
	case *StructV:
		y, ok := b.(*StructV)
		if !ok || len(x.F) != len(y.F) {
			return false
		}
		for i := range x.F {
			if !valEqual(x.F[i], y.F[i]) {
				return false
			}
		}
		return true
	case *SliceV:
		y, ok := b.(*SliceV)
		return ok && x.Arr.S == y.Arr.S && x.Off.S == y.Off.S && x.Len.S == y.Len.S && x.Cap.S == y.Cap.S
	case *TupleV:
		y, ok := b.(*TupleV)
		if !ok || len(x.E) != len(y.E) {
			return false
		}
		for i := range x.E {
			if !valEqual(x.E[i], y.E[i]) {
				return false
			}
		}
		return true
	case *ClosV:
		y, ok := b.(*ClosV)
		if !ok || x.Fn != y.Fn || len(x.Binds) != len(y.Binds) {
			return false
		}
		for i := range x.Binds {
			if !valEqual(x.Binds[i], y.Binds[i]) {
				return false
			}
		}
		return true
	case *PtrV:
		y, ok := b.(*PtrV)
		if !ok || x.Kind != y.Kind || x.Cell != y.Cell || x.Base.S != y.Base.S || x.FI != y.FI || x.Glob != y.Glob || len(x.Path) != len(y.Path) {
			return false
		}
		for i := range x.Path {
			if x.Path[i] != y.Path[i] {
				return false
			}
		}
		if (x.Idx == nil) != (y.Idx == nil) {
			return false
		}
		if x.Idx != nil && x.Idx.S != y.Idx.S {
			return false
		}
		return true
	case nil:
		return b == nil
	}
	return false
}

// mergeVals merges values under mutually exclusive conditions.
func (vc *VC) mergeVals(conds []T, vals []Val, typ types.Type, hint string) Val {
	allEq := true
	for i := 1; i < len(vals); i++ {
		if !valEqual(vals[0], vals[i]) {
			allEq = false
			break
		}
	}
	if allEq {
		return vals[0]
	}
	switch x := vals[0].(type) {
	case T:
		ts := make([]T, len(vals))
		for i, v := range vals {
			t, ok := v.(T)
			if !ok || t.Sort != x.Sort {
				if typ != nil {
					vc.warn("merge: kind mismatch for %s; havoc", hint)
					return vc.freshVal(typ, hint)
				}
				return vc.fresh(hint, x.Sort)
			}
			ts[i] = t
		}
		m := vc.fresh(hint, x.Sort)
		e := ts[len(ts)-1]
		for i := len(ts) - 2; i >= 0; i-- {
			e = Ite(conds[i], ts[i], e)
		}
		vc.assert(Eq(m, e))
		return m
	case *StructV:
		out := &StructV{Typ: x.Typ, F: make([]Val, len(x.F))}
		st := structOf(x.Typ)
		for fi := range x.F {
			sub := make([]Val, len(vals))
			for i, v := range vals {
				sv, ok := v.(*StructV)
				if !ok || len(sv.F) != len(x.F) {
					vc.warn("merge: struct mismatch for %s; havoc", hint)
					return vc.freshVal(x.Typ, hint)
				}
				sub[i] = sv.F[fi]
			}
			var ft types.Type
			if st != nil {
				ft = st.Field(fi).Type()
			}
			out.F[fi] = vc.mergeVals(conds, sub, ft, hint)
		}
		return out
	case *SliceV:
		get := func(f func(*SliceV) T) Val {
			sub := make([]Val, len(vals))
			for i, v := range vals {
				sv, ok := v.(*SliceV)
				if !ok {
					return nil
				}
				sub[i] = f(sv)
			}
			return vc.mergeVals(conds, sub, nil, hint)
		}
		a, o, l, c := get(func(s *SliceV) T { return s.Arr }), get(func(s *SliceV) T { return s.Off }), get(func(s *SliceV) T { return s.Len }), get(func(s *SliceV) T { return s.Cap })
		if a == nil || o == nil || l == nil || c == nil {
			return vc.freshVal(typ, hint)
		}
		return &SliceV{Arr: a.(T), Off: o.(T), Len: l.(T), Cap: c.(T), Elem: x.Elem}
	case *TupleV:
		out := &TupleV{E: make([]Val, len(x.E))}
		for fi := range x.E {
			sub := make([]Val, len(vals))
			for i, v := range vals {
				sub[i] = v.(*TupleV).E[fi]
			}
			out.E[fi] = vc.mergeVals(conds, sub, nil, hint)
		}
		return out
	case *PtrV:
		// same shape with differing base/idx terms?
		ok := true
		for _, v := range vals {
			y, isp := v.(*PtrV)
			if !isp || y.Kind != x.Kind || y.Cell != x.Cell || y.FI != x.FI || y.Glob != x.Glob || fmt.Sprint(y.Path) != fmt.Sprint(x.Path) || (y.Idx == nil) != (x.Idx == nil) {
				ok = false
				break
			}
		}
		if ok && x.Kind != PCell {
			bs := make([]Val, len(vals))
			is := make([]Val, len(vals))
			for i, v := range vals {
				y := v.(*PtrV)
				bs[i] = y.Base
				if y.Idx != nil {
					is[i] = *y.Idx
				}
			}
			n := *x
			n.Base = vc.mergeVals(conds, bs, nil, hint).(T)
			if x.Idx != nil {
				t := vc.mergeVals(conds, is, nil, hint).(T)
				n.Idx = &t
			}
			return &n
		}
	}
	if typ != nil {
		vc.warn("merge: unmergeable %T for %s; havoc", vals[0], hint)
		return vc.freshVal(typ, hint)
	}
	vc.warn("merge: unmergeable %T for %s; opaque", vals[0], hint)
	return vc.fresh(hint, SInt)
}

func (vc *VC) mergeStates(incs []inc) (T, *State) {
	if len(incs) == 1 {
		return incs[0].cond, incs[0].st
	}
	conds := make([]T, len(incs))
	for i, in := range incs {
		conds[i] = in.cond
	}
	reach := vc.fresh("r", SBool)
	vc.assert(Eq(reach, Or(conds...)))
	out := newState()
	out.rec = incs[0].st.rec
	// cells: union of keys; a cell missing in some incoming state is dead there.
	seen := map[*Cell]bool{}
	var cells []*Cell
	for _, in := range incs {
		for c := range in.st.cells {
			if !seen[c] {
				seen[c] = true
				cells = append(cells, c)
			}
		}
	}
	sort.Slice(cells, func(i, j int) bool { return cells[i].ID < cells[j].ID })
	for _, c := range cells {
		var cs []T
		var vs []Val
		for _, in := range incs {
			if v, ok := in.st.cells[c]; ok {
				cs = append(cs, in.cond)
				vs = append(vs, v)
			}
		}
		out.cells[c] = vc.mergeVals(cs, vs, c.Typ, c.Name)
	}
	gseen := map[string]bool{}
	for _, in := range incs {
		for k := range in.st.glob {
			gseen[k] = true
		}
	}
	for _, k := range sortedKeys(gseen) {
		var cs []T
		var vs []Val
		var sortOf Sort
		for _, in := range incs {
			if v, ok := in.st.glob[k]; ok {
				sortOf = v.Sort
			}
		}
		for _, in := range incs {
			v, ok := in.st.glob[k]
			if !ok {
				v = vc.initGlob(k, sortOf)
			}
			cs = append(cs, in.cond)
			vs = append(vs, v)
		}
		out.glob[k] = vc.mergeVals(cs, vs, nil, k).(T)
	}
	return reach, out
}

// initGlob returns the function-entry symbol of a global key (lazily created).
func (vc *VC) initGlob(k string, s Sort) T {
	return vc.declare(k+"@0", s)
}

func (vc *VC) getGlob(st *State, k string, s Sort) T {
	if v, ok := st.glob[k]; ok {
		return v
	}
	v := vc.initGlob(k, s)
	st.glob[k] = v // not a write
	return v
}

// ---------------------------------------------------------------------------
// Frames

type deferRec struct {
	armed T
	call  *ssa.CallCommon
	args  []Val
	fnVal Val
	site  ssa.Instruction
}

type retRec struct {
	cond T
	st   *State
	res  []Val
}

type Frame struct {
	x        *Exec
	fn       *ssa.Function
	env      map[ssa.Value]Val
	cells    map[*ssa.Alloc]*Cell
	lvRep    map[*ssa.Alloc]*ssa.Alloc // per-iteration loop-variable copies -> the loop variable they continue
	binds    []Val
	params   []Val
	defers   []deferRec
	rets     []retRec
	depth    int
	ct       *Contract
	old      *State
	loopPre  map[*ssa.BasicBlock]*State
	loopDec  map[*ssa.BasicBlock]T
	loops    *loopInfo
	top      bool
	callSeq  map[string]int
	parent   *Frame
	lastEdge map[*ssa.BasicBlock]map[*ssa.BasicBlock]T
	frame    *frameSpec
	loopKeys map[*ssa.BasicBlock][]string
	loopRidx map[*ssa.BasicBlock][]*Cell
	siteOrd  map[ssa.Instruction]int
	curBlock *ssa.BasicBlock
	reach    map[*ssa.BasicBlock]map[*ssa.BasicBlock]bool
}

type Exec struct {
	vc  *VC
	eng *Engine
}

type loopInfo struct {
	headers []*ssa.BasicBlock
	ord     map[*ssa.BasicBlock]int
	body    map[*ssa.BasicBlock]map[*ssa.BasicBlock]bool
	order   []*ssa.BasicBlock
}

func analyzeLoops(fn *ssa.Function) *loopInfo {
	li := &loopInfo{ord: map[*ssa.BasicBlock]int{}, body: map[*ssa.BasicBlock]map[*ssa.BasicBlock]bool{}}
	isBack := func(u, h *ssa.BasicBlock) bool { return h.Dominates(u) }
	for _, b := range fn.Blocks {
		for _, s := range b.Succs {
			if isBack(b, s) {
				if li.body[s] == nil {
					li.body[s] = map[*ssa.BasicBlock]bool{s: true}
					li.headers = append(li.headers, s)
				}
				// natural loop: nodes that reach b without passing s
				stack := []*ssa.BasicBlock{b}
				for len(stack) > 0 {
					n := stack[len(stack)-1]
					stack = stack[:len(stack)-1]
					if li.body[s][n] {
						continue
					}
					li.body[s][n] = true
					for _, p := range n.Preds {
						stack = append(stack, p)
					}
				}
			}
		}
	}
	// order loop headers by source position of the for/range statement (falls back to block index)
	sort.Slice(li.headers, func(i, j int) bool {
		pi, pj := headerPos(li.headers[i]), headerPos(li.headers[j])
		if pi != pj && pi != token.NoPos && pj != token.NoPos {
			return pi < pj
		}
		return li.headers[i].Index < li.headers[j].Index
	})
	for i, h := range li.headers {
		li.ord[h] = i
	}
	// topological order ignoring back edges
	visited := map[*ssa.BasicBlock]bool{}
	var post []*ssa.BasicBlock
	var dfs func(b *ssa.BasicBlock)
	dfs = func(b *ssa.BasicBlock) {
		visited[b] = true
		for _, s := range b.Succs {
			if isBack(b, s) || visited[s] {
				continue
			}
			dfs(s)
		}
		post = append(post, b)
	}
	if len(fn.Blocks) > 0 {
		dfs(fn.Blocks[0])
		if fn.Recover != nil && !visited[fn.Recover] {
			// recover block unreachable in our model
		}
	}
	for i := len(post) - 1; i >= 0; i-- {
		li.order = append(li.order, post[i])
	}
	return li
}

func headerPos(b *ssa.BasicBlock) token.Pos {
	// smallest valid position among the header's instructions
	best := token.NoPos
	for _, in := range b.Instrs {
		if p := in.Pos(); p != token.NoPos && (best == token.NoPos || p < best) {
			best = p
		}
	}
	return best
}

func (x *Exec) newFrame(fn *ssa.Function, parent *Frame) *Frame {
	fr := &Frame{x: x, fn: fn, env: map[ssa.Value]Val{}, cells: map[*ssa.Alloc]*Cell{}, loopPre: map[*ssa.BasicBlock]*State{},
		loopDec: map[*ssa.BasicBlock]T{}, callSeq: map[string]int{}, parent: parent}
	if parent != nil {
		fr.depth = parent.depth + 1
	}
	fr.loops = x.eng.loopsOf(fn)
	return fr
}

func (fr *Frame) posOf(in ssa.Instruction) string {
	p := in.Pos()
	if p == token.NoPos {
		p = fr.fn.Pos()
	}
	ps := fr.x.eng.fset.Position(p)
	return fmt.Sprintf("%s:%d", ps.Filename, ps.Line)
}

// runRegion symbolically executes the blocks of region (nil = whole function)
// starting at start, in topological order. If dryHeader is non-nil, start is a
// loop header whose header processing is skipped (dry run to collect writes).
func (fr *Frame) runRegion(region map[*ssa.BasicBlock]bool, start *ssa.BasicBlock, cond T, st *State, dryHeader *ssa.BasicBlock) {
	vc := fr.x.vc
	incoming := map[*ssa.BasicBlock][]inc{}
	incoming[start] = []inc{{nil, cond, st}}
	for _, b := range fr.loops.order {
		if region != nil && !region[b] {
			continue
		}
		incs := incoming[b]
		if len(incs) == 0 {
			continue
		}
		delete(incoming, b)
		// record edge conditions for phi
		for _, in := range incs {
			if in.from != nil {
				if fr.lastEdge == nil {
					fr.lastEdge = map[*ssa.BasicBlock]map[*ssa.BasicBlock]T{}
				}
				if fr.lastEdge[b] == nil {
					fr.lastEdge[b] = map[*ssa.BasicBlock]T{}
				}
				fr.lastEdge[b][in.from] = in.cond
			}
		}
		bc, bst := vc.mergeStates(incs)
		if len(incs) == 1 {
			bst = bst.clone()
		}
		if bc.S == "false" {
			continue
		}
		if _, isHdr := fr.loops.body[b]; isHdr && b != dryHeader {
			bc, bst = fr.loopHeader(b, bc, bst)
		}
		var term ssa.Instruction
		for _, in := range b.Instrs {
			switch in.(type) {
			case *ssa.If, *ssa.Jump, *ssa.Return, *ssa.Panic:
				term = in
			default:
				bc = fr.step(in, bc, bst)
			}
		}
		send := func(s *ssa.BasicBlock, c T, stt *State) {
			if c.S == "false" {
				return
			}
			if s.Dominates(b) { // back edge
				if _, isHdr := fr.loops.body[s]; isHdr {
					fr.backEdge(s, c, stt)
				}
				return
			}
			if region != nil && !region[s] {
				return
			}
			incoming[s] = append(incoming[s], inc{b, c, stt})
		}
		switch t := term.(type) {
		case *ssa.If:
			cv, ok := fr.val(t.Cond).(T)
			if !ok || cv.Sort != SBool {
				cv = vc.fresh("cond", SBool)
			}
			cv = vc.name("c", cv)
			send(b.Succs[0], And(bc, cv), bst)
			send(b.Succs[1], And(bc, Not(cv)), bst.clone())
		case *ssa.Jump:
			send(b.Succs[0], bc, bst)
		case *ssa.Return:
			var res []Val
			for _, r := range t.Results {
				res = append(res, fr.val(r))
			}
			fr.rets = append(fr.rets, retRec{bc, bst, res})
		case *ssa.Panic:
			// path ends
		}
	}
}

func (fr *Frame) loopHeader(h *ssa.BasicBlock, cond T, st *State) (T, *State) {
	vc := fr.x.vc
	ord := fr.loops.ord[h]
	var lc *LoopContract
	if fr.ct != nil {
		lc = fr.ct.Loops[ord]
	}
	cond = vc.name("rl", cond)
	pre := st.clone()
	fr.loopPre[h] = pre
	if lc == nil && fr.top {
		vc.warn("loop %d of %s has no invariant (defaults to true)", ord, fr.fn.String())
	}
	ev := fr.evaluator(pre)
	ev.loopPre = pre
	if lc != nil {
		for i, inv := range lc.Invariants {
			g := ev.evalBool(inv.E)
			vc.oblige("inv-init", invLabel(ord, i, inv), inv.Src, inv.Tags, fr.headerPosStr(h), cond, g)
		}
	}
	// dry run to collect writes
	rec := newWriteRec()
	dst := pre.clone()
	dst.rec = rec
	vc.dry++
	nA := len(vc.asserts)
	savedRets := fr.rets
	savedDefers := fr.defers
	fr.runRegion(fr.loops.body[h], h, cond, dst, h)
	fr.rets = savedRets
	fr.defers = savedDefers
	vc.asserts = vc.asserts[:nA]
	vc.dry--
	if fr.top && fr.frame != nil && !fr.frame.heapAll {
		al0 := vc.getGlob(fr.old, "$alloc", SInt)
		for _, k := range sortedKeys(rec.glob) {
			cur, has := pre.glob[k]
			if !has {
				continue
			}
			entry, ok := fr.old.glob[k]
			if !ok {
				entry = vc.initGlob(k, cur.Sort)
			}
			if g, ok := fr.frame.frameGoal(vc, k, entry, cur, al0); ok {
				vc.oblige("inv-init", fmt.Sprintf("loop%d.frame.%s", ord, sanitize(k)), "implicit loop frame: "+k, nil, fr.headerPosStr(h), cond, g)
			}
		}
	}
	// havoc
	var cs []*Cell
	for c := range rec.cells {
		cs = append(cs, c)
	}
	sort.Slice(cs, func(i, j int) bool { return cs[i].ID < cs[j].ID })
	// implicit invariant for compiler-generated range indices: -1 <= rangeindex
	var ridx []*Cell
	if h.Comment == "rangeindex.loop" {
		for _, c := range cs {
			if c.Name == "rangeindex" {
				if v, ok := pre.cells[c].(T); ok {
					ridx = append(ridx, c)
					vc.oblige("inv-init", fmt.Sprintf("loop%d.rangeindex", ord), "implicit: -1 <= rangeindex <= 2^62", nil, fr.headerPosStr(h), cond, And(Le(I(-1), v), Le(v, IStr("4611686018427387904"))))
				}
			}
		}
	}
	if fr.loopRidx == nil {
		fr.loopRidx = map[*ssa.BasicBlock][]*Cell{}
	}
	fr.loopRidx[h] = ridx
	for _, c := range cs {
		if _, ok := st.cells[c]; !ok {
			continue
		}
		if _, isClos := st.cells[c].(*ClosV); isClos {
			continue
		}
		nv := vc.freshVal(c.Typ, c.Name)
		// slice offsets that are literally zero before the loop and on every write stay zero
		if osv, ok := st.cells[c].(*SliceV); ok && osv.Off.S == "0" && !rec.offNon0[c] {
			if nsv, ok := nv.(*SliceV); ok {
				nsv.Off = I(0)
			}
		}
		st.cells[c] = nv
		if st.rec != nil {
			st.rec.cells[c] = true
			if rec.offNon0[c] {
				st.rec.offNon0[c] = true
			}
		}
	}
	for _, k := range sortedKeys(rec.glob) {
		old := vc.getGlob(st, k, globSortGuess(pre, rec, k, vc))
		nv := vc.fresh(k, old.Sort)
		st.glob[k] = nv
		if st.rec != nil {
			st.rec.glob[k] = true
		}
		if k == "$alloc" {
			vc.assert(Le(old, nv))
		}
	}
	// implicit frame invariant: havocked heap keys changed only where the function's modifies clause allows
	if fr.top && fr.frame != nil && !fr.frame.heapAll {
		al0 := vc.getGlob(fr.old, "$alloc", SInt)
		var keys []string
		for _, k := range sortedKeys(rec.glob) {
			entry, ok := fr.old.glob[k]
			if !ok {
				entry = vc.initGlob(k, st.glob[k].Sort)
			}
			if g, ok := fr.frame.frameGoal(vc, k, entry, st.glob[k], al0); ok {
				vc.assert(Imp(cond, g))
				keys = append(keys, k)
			}
		}
		if fr.loopKeys == nil {
			fr.loopKeys = map[*ssa.BasicBlock][]string{}
		}
		fr.loopKeys[h] = keys
	}
	for _, c := range ridx {
		if v, ok := st.cells[c].(T); ok {
			vc.assert(Imp(cond, And(Le(I(-1), v), Le(v, IStr("4611686018427387904")))))
		}
	}
	ev2 := fr.evaluator(st)
	ev2.loopPre = pre
	if lc != nil {
		for _, inv := range lc.Invariants {
			g := ev2.evalBool(inv.E)
			vc.assert(Imp(cond, g))
		}
		if lc.Decreases != nil {
			m := ev2.evalInt(lc.Decreases.E)
			m = vc.name("dec", m)
			fr.loopDec[h] = m
		}
	}
	return cond, st
}

// invLabel names an invariant obligation by its tag when it has one (stable under reordering).
func invLabel(ord, i int, inv *Clause) string {
	if len(inv.Tags) > 0 {
		return fmt.Sprintf("loop%d.%s", ord, inv.Tags[0])
	}
	return fmt.Sprintf("loop%d.%d", ord, i)
}

func globSortGuess(pre *State, rec *writeRec, k string, vc *VC) Sort {
	if v, ok := pre.glob[k]; ok {
		return v.Sort
	}
	if s, ok := vc.eng.globSorts[k]; ok {
		return s
	}
	if s, ok := vc.eng.cs.Ghosts[k]; ok {
		return s
	}
	if k == "$alloc" {
		return SInt
	}
	if strings.HasPrefix(k, "G_") {
		// package-level variables reach here only as scalars (sentinel errors and the like)
		return SInt
	}
	return SArrII
}

func (fr *Frame) headerPosStr(h *ssa.BasicBlock) string {
	p := headerPos(h)
	if p == token.NoPos {
		p = fr.fn.Pos()
	}
	ps := fr.x.eng.fset.Position(p)
	return fmt.Sprintf("%s:%d", ps.Filename, ps.Line)
}

func (fr *Frame) backEdge(h *ssa.BasicBlock, cond T, st *State) {
	vc := fr.x.vc
	if vc.dry > 0 {
		return
	}
	ord := fr.loops.ord[h]
	var lc *LoopContract
	if fr.ct != nil {
		lc = fr.ct.Loops[ord]
	}
	if fr.top && fr.frame != nil && !fr.frame.heapAll {
		al0 := vc.getGlob(fr.old, "$alloc", SInt)
		for _, k := range fr.loopKeys[h] {
			entry, ok := fr.old.glob[k]
			if !ok {
				entry = vc.initGlob(k, st.glob[k].Sort)
			}
			if g, ok := fr.frame.frameGoal(vc, k, entry, st.glob[k], al0); ok {
				vc.oblige("inv-pres", fmt.Sprintf("loop%d.frame.%s", ord, sanitize(k)), "implicit loop frame: "+k, nil, fr.headerPosStr(h), cond, g)
			}
		}
	}
	for _, c := range fr.loopRidx[h] {
		if v, ok := st.cells[c].(T); ok {
			vc.oblige("inv-pres", fmt.Sprintf("loop%d.rangeindex", ord), "implicit: -1 <= rangeindex <= 2^62", nil, fr.headerPosStr(h), cond, And(Le(I(-1), v), Le(v, IStr("4611686018427387904"))))
		}
	}
	if lc == nil {
		return
	}
	ev := fr.evaluator(st)
	ev.loopPre = fr.loopPre[h]
	for i, inv := range lc.Invariants {
		g := ev.evalBool(inv.E)
		vc.oblige("inv-pres", invLabel(ord, i, inv), inv.Src, inv.Tags, fr.headerPosStr(h), cond, g)
	}
	if lc.Decreases != nil {
		m0, ok := fr.loopDec[h]
		if ok {
			m := ev.evalInt(lc.Decreases.E)
			vc.oblige("dec", fmt.Sprintf("loop%d", ord), lc.Decreases.Src, lc.Decreases.Tags, fr.headerPosStr(h), cond, And(Le(I(0), m0), Lt(m, m0)))
		}
	}
}

// val returns the symbolic value of an SSA value in this frame.
func (fr *Frame) val(v ssa.Value) Val {
	vc := fr.x.vc
	switch c := v.(type) {
	case *ssa.Const:
		return fr.constVal(c)
	case *ssa.Function:
		return &ClosV{Fn: c}
	case *ssa.Global:
		key := "G_" + sanitize(c.Pkg.Pkg.Name()+"_"+c.Name())
		// sentinel errors (package-level `var ErrX = errors.New(...)`) are distinct non-nil constants at function entry
		if (strings.HasPrefix(c.Name(), "Err") || strings.HasPrefix(c.Name(), "err") || c.Name() == "EOF" || c.Name() == "Canceled" || c.Name() == "DeadlineExceeded") && !vc.decl[key+"$sentinel"] {
			if pt, ok := c.Type().Underlying().(*types.Pointer); ok && types.IsInterface(pt.Elem()) && pt.Elem().String() == "error" {
				vc.decl[key+"$sentinel"] = true
				g0 := vc.initGlob(key, SInt)
				vc.sigs = append(vc.sigs, fmt.Sprintf("(assert (= %s %d))", g0.S, 900000+vc.eng.addrKind(key)))
				vc.assume("sentinel error variables (Err*) are non-nil, pairwise distinct and never reassigned before function entry")
			}
		}
		return &PtrV{Kind: PGlobal, Glob: key}
	case *ssa.Builtin:
		return c
	case *ssa.FreeVar:
		for i, fv := range fr.fn.FreeVars {
			if fv == c && i < len(fr.binds) {
				return fr.binds[i]
			}
		}
	}
	if x, ok := fr.env[v]; ok {
		return x
	}
	vc.warn("value %s (%T) in %s undefined; havoc", v.Name(), v, fr.fn.Name())
	nv := vc.freshVal(v.Type(), "undef_"+v.Name())
	fr.env[v] = nv
	return nv
}

func (fr *Frame) constVal(c *ssa.Const) Val {
	vc := fr.x.vc
	t := types.Unalias(c.Type())
	if c.Value == nil {
		return vc.zeroVal(t)
	}
	if b, ok := t.Underlying().(*types.Basic); ok {
		switch {
		case b.Info()&types.IsBoolean != 0:
			return B(c.Value.String() == "true")
		case b.Info()&types.IsInteger != 0:
			return IStr(c.Value.ExactString())
		case b.Info()&types.IsString != 0:
			s := c.Value.ExactString()
			// ExactString is quoted
			if us, err := unquote(s); err == nil {
				s = us
			}
			return vc.strLit(s)
		case b.Info()&types.IsFloat != 0:
			f := vc.eng.floatConst(c.Value.ExactString())
			return vc.declare(f, SInt)
		}
	}
	return vc.freshVal(t, "const")
}

func unquote(s string) (string, error) {
	if len(s) >= 2 && s[0] == '"' {
		var out string
		_, err := fmt.Sscanf(s, "%q", &out)
		return out, err
	}
	return s, nil
}
